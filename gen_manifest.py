#!/usr/bin/env python3
"""Regenerate MANIFEST.json from checks_conf.py (single source of truth for the check list)."""
import json, os, subprocess, sys
ROOT = os.path.dirname(os.path.abspath(__file__))
sys.path.insert(0, ROOT)
from checks_conf import PROPS

ALL = [json.loads(l)["id"] for l in open(os.path.join(ROOT, "properties.jsonl"))]
hook_commits = subprocess.run(["git", "-C", "/repo", "log", "--format=%h %s", "--grep", "^verif hooks"], capture_output=True, text=True).stdout.strip().splitlines()

checks = []
for pid in ALL:
    if pid not in PROPS:
        continue
    c = PROPS[pid]
    checks.append(dict(
        property_id=pid,
        quick_cmd=f"./check {pid} --tier quick",
        thorough_cmd=f"./check {pid} --tier thorough",
        evidence_file=f"/verif/evidence/{pid}.json",
        replay_cmd_template=f"./check {pid} --replay {{path}}",
        engine=c.get("engine", "pduloop"),
        level_claimed=dict(category=c["level"], text=c["level_text"], design_ref=c.get("design_ref", f"DESIGN.md section 4 ({pid})")),
        level_note=c["level_note"],
        technique=c["technique"],
    ))

NA_REASONS = {}
na = [dict(property_id=p, reason=NA_REASONS.get(p, "check not built yet in this session (runtime monitoring applies; see DESIGN.md section 4)")) for p in ALL if p not in PROPS]

m = dict(
    version=1,
    setup_cmd="./setup",
    hooks=dict(
        guard="--cfg ethercrab_verif",
        enable='RUSTFLAGS="--cfg ethercrab_verif" (set by ./check for every build of /verif/harness, which depends on /repo by path)',
        baseline_off_cmd="cd /repo && RUSTUP_TOOLCHAIN=1.88.0 cargo nextest run --workspace --no-fail-fast --tool-config-file pb:/w/lib/nextest.toml --profile pb --test-threads 8 --offline",
        source_commits=[l.split()[0] for l in hook_commits],
        add_only=True,
    ),
    engines=[
        dict(name="pduloop", path="harness/src/bin/c01.rs..c06.rs, harness/src/{pl,sched,wire}.rs", serves_properties=["C01", "C02", "C03", "C04", "C05", "C06"], kind_free_text="real PDU loop driven by scripted actors; hook-fed monitors; baton scheduler over cfg-gated yield points; virtual clock; Miri/TSan variants"),
        dict(name="simnet", path="harness/src/sim/", serves_properties=["C07", "C08", "C09", "C10", "C11", "C12", "C13", "C14", "C15", "C16", "C17", "C18", "C20"], kind_free_text="software EtherCAT segment between PduTx and PduRx: registers, SII, AL state machine, SM/FMMU, mailbox/CoE, DC; ground truth for oracles and fault injector"),
        dict(name="wiregen", path="wiregen/", serves_properties=["C19"], kind_free_text="generated derive programs compared with an independent bit-level packer"),
    ],
    checks=checks,
    not_applicable=na,
    notes="Exit codes of ./check: 0 held (KNOWN-FINDING lines possible), 1 violation (VIOLATION line), 2 inconclusive (harness problem; never a VIOLATION line). VERIF_SEED and VERIF_TIER are honoured.",
)
json.dump(m, open(os.path.join(ROOT, "MANIFEST.json"), "w"), indent=1)
print(f"{len(checks)} checks, {len(na)} not_applicable")
