#!/usr/bin/env python3
"""Shard runner for property C19 (derived wire encodings match their declared layout).

  run.py --seed S --shard i/n --tier quick|thorough --out FILE [--only-case K]
         [--wire-path /repo/ethercrab-wire] [--target-dir DIR] [--count N] [--values N] [--buffers N] [--keep]

Generates the definitions of shard i (gen.py), builds them against the CURRENT working tree of
the repo (path dependency) with `cargo build --offline --release` into the shared target directory
/verif/target/wiregen/target, runs the program and writes FILE: one JSON object with exactly the
keys property, seed, shard, shards, tier, evaluations, distinct (u64 hashes of the distinct
non-trivial definitions: >= 2 fields or a sub-byte field), counters, samples, observations,
violations ([{signature "C19:<rule>:<construct>", detail, replay {case, seed, shard, ...}}], at
most 5 listed per signature), violation_counts (signature -> failing checks), inconclusive.

Replay: `--only-case K` (K from a violation's replay.case; with the same --seed/--shard/--tier)
rebuilds only definition K plus what it refers to and re-runs all its evaluations; K >= 100000
selects one of the static in-crate sections.

Build strategy: cargo serialises on the lock of a shared target directory, so the first shard that
gets the lock builds a workspace holding the crates of *all* n shards of this (seed, tier) in one
cargo invocation (crates compile in parallel); the other shards then find their binary ready.
If that workspace does not compile, every shard falls back to building its own crate, maps the
compiler errors to definitions, drops those (and what depends on them) and reports them through
`inconclusive`, never as violations.

Exit code 0 whenever FILE was written; non-zero only for harness failures.
"""
import argparse, fcntl, hashlib, json, os, re, shutil, subprocess, sys, time

HERE = os.path.dirname(os.path.abspath(__file__))
sys.path.insert(0, HERE)
import gen  # noqa: E402

BASE = os.path.join(os.path.dirname(HERE), "target", "wiregen")
TARGET = os.path.join(BASE, "target")
TIERS = {
    # definitions per shard, random values per definition, random buffers per definition
    "quick": dict(count=52, values=600, buffers=600),
    "thorough": dict(count=300, values=2500, buffers=2500),
}
INCRATE_BASE = 100000
MAX_LISTED_PER_SIGNATURE = 5
DETAIL_MAX = 900


def log(*a):
    print("[wiregen]", *a, file=sys.stderr, flush=True)


def cargo_env():
    e = dict(os.environ)
    e["CARGO_NET_OFFLINE"] = "true"
    e["CARGO_TARGET_DIR"] = TARGET
    e["CARGO_TERM_COLOR"] = "never"
    e["RUST_BACKTRACE"] = "0"
    for k in ("RUSTFLAGS", "CARGO_ENCODED_RUSTFLAGS", "RUSTUP_TOOLCHAIN", "CARGO_BUILD_RUSTFLAGS"):
        e.pop(k, None)
    return e


class Lock:
    """Explicit lock around everything that touches the shared target directory."""

    def __init__(self):
        os.makedirs(BASE, exist_ok=True)
        self.path = os.path.join(BASE, "build.lock")

    def __enter__(self):
        self.fh = open(self.path, "w")
        fcntl.flock(self.fh, fcntl.LOCK_EX)
        return self

    def __exit__(self, *a):
        fcntl.flock(self.fh, fcntl.LOCK_UN)
        self.fh.close()


def newest_source_mtime(paths):
    m = 0.0
    for p in paths:
        if os.path.isfile(p):
            m = max(m, os.path.getmtime(p))
            continue
        for root, dirs, files in os.walk(p):
            dirs[:] = [d for d in dirs if d not in ("target", ".git")]
            for f in files:
                if f.endswith((".rs", ".toml", ".lock")):
                    try:
                        m = max(m, os.path.getmtime(os.path.join(root, f)))
                    except OSError:
                        pass
    return m


class Plan:
    """Everything that identifies the programs of one (seed, tier, n) run."""

    def __init__(self, a):
        self.seed = a.seed
        self.shard, self.shards = a.shard_i, a.shard_n
        self.tier = a.tier
        t = TIERS[a.tier]
        self.count = a.count or t["count"]
        self.values = a.values or t["values"]
        self.buffers = a.buffers or t["buffers"]
        self.wire_path, self.eth = gen.resolve_paths(a.wire_path, None, a.no_ethercrab)
        self.derive_path = os.path.join(os.path.dirname(self.wire_path), "ethercrab-wire-derive")
        with open(os.path.join(HERE, "gen.py"), "rb") as fh:
            gdig = hashlib.sha256(fh.read()).hexdigest()[:12]
        self.tdig = gen.template_digest()
        key = "%s|%s|%s|%s|%d" % (gdig, self.tdig, self.wire_path, self.eth, self.count)
        self.key = hashlib.sha256(key.encode()).hexdigest()[:8]
        self.rt_dir = os.path.join(BASE, "rt-%s" % hashlib.sha256(("%s|%s|%s" % (self.tdig, self.wire_path, self.eth)).encode()).hexdigest()[:10])
        self.sources = [self.wire_path, self.derive_path, os.path.join(HERE, "template"), os.path.join(HERE, "gen.py")]
        if self.eth:
            self.sources += [os.path.join(self.eth, "src"), os.path.join(self.eth, "Cargo.toml")]

    def pkg(self, shard):
        return "wg-%s-s%d-%dof%d" % (self.key, self.seed, shard, self.shards)

    def binary(self, shard):
        return os.path.join(TARGET, "release", self.pkg(shard))

    def binary_valid(self, shard):
        b = self.binary(shard)
        return os.path.isfile(b) and os.path.getmtime(b) > newest_source_mtime(self.sources)


def run_cargo(cwd, args, timeout):
    t0 = time.time()
    p = subprocess.run(["cargo"] + args, cwd=cwd, env=cargo_env(), stdout=subprocess.PIPE, stderr=subprocess.STDOUT,
                       text=True, timeout=timeout)
    return p.returncode, p.stdout, time.time() - t0


def remove_artifacts(pkg):
    """Drop what a one-off package left in the shared target directory (dependencies stay)."""
    rel = os.path.join(TARGET, "release")
    under = pkg.replace("-", "_")
    victims = [os.path.join(rel, pkg), os.path.join(rel, pkg + ".d")]
    for d, prefix in ((os.path.join(rel, "deps"), under + "-"), (os.path.join(rel, ".fingerprint"), pkg + "-")):
        if os.path.isdir(d):
            victims += [os.path.join(d, n) for n in os.listdir(d) if n.startswith(prefix)]
    for path in victims:
        try:
            shutil.rmtree(path) if os.path.isdir(path) else os.unlink(path)
        except OSError:
            pass


def prune_stale(max_age=86400):
    """Left-overs of interrupted runs: one-off binaries, run links, workspaces, old runtime copies."""
    now = time.time()
    rel = os.path.join(TARGET, "release")
    for d, pat in ((rel, r"^wg-"), (os.path.join(rel, "deps"), r"^wg_"), (os.path.join(rel, ".fingerprint"), r"^wg-"),
                   (BASE, r"^(ws-|rt-|s\d+-\d+)")):
        if not os.path.isdir(d):
            continue
        for n in os.listdir(d):
            path = os.path.join(d, n)
            try:
                if re.match(pat, n) and now - os.path.getmtime(path) > max_age:
                    shutil.rmtree(path) if os.path.isdir(path) else os.unlink(path)
            except OSError:
                pass


def first_error(text):
    m = re.search(r"^error(\[E\d+\])?:.*(?:\n(?!error|warning).*){0,12}", text, re.M)
    return (m.group(0) if m else text[-1500:]).strip()


def failing_definitions(build_output, main_rs_text, member_prefix=""):
    """Definition numbers whose source lines the compiler complained about."""
    starts = []  # (line number, def index)
    for n, line in enumerate(main_rs_text.split("\n"), 1):
        m = re.match(r"// ---- definition (\d+) ", line)
        if m:
            starts.append((n, int(m.group(1))))
        if line.startswith("fn defs()"):
            starts.append((n, None))
    bad = set()
    # only lines that belong to an `error`, not to warnings
    for block in re.split(r"\n(?=error|warning)", build_output):
        if not block.startswith("error"):
            continue
        for m in re.finditer(r"--> %ssrc/main\.rs:(\d+):" % re.escape(member_prefix), block):
            ln = int(m.group(1))
            owner = None
            for s, idx in starts:
                if s <= ln:
                    owner = idx
            if owner is not None:
                bad.add(owner)
    return bad


def build_workspace(plan):
    """Build the crates of all shards in one cargo invocation. True on success."""
    ws = os.path.join(BASE, "ws-%s-s%d-%s" % (plan.key, plan.seed, plan.tier))
    marker = os.path.join(BASE, "ws-failed-%s-s%d-n%d" % (plan.key, plan.seed, plan.shards))
    if os.path.exists(marker) and os.path.getmtime(marker) > newest_source_mtime(plan.sources):
        return False
    shutil.rmtree(ws, ignore_errors=True)
    os.makedirs(ws)
    members = []
    for sh in range(plan.shards):
        pool = gen.generate(plan.seed, sh, plan.count)
        emit_idx, report_idx = gen.select(pool)
        d = os.path.join(ws, "m%d" % sh)
        gen.emit(pool, emit_idx, report_idx, d, plan.pkg(sh), plan.wire_path, plan.eth, plan.seed, sh, rt_dir=plan.rt_dir, standalone=False)
        members.append("m%d" % sh)
    with open(os.path.join(ws, "Cargo.toml"), "w") as fh:
        fh.write("[workspace]\nresolver = \"2\"\nmembers = [%s]\n\n%s" % (", ".join('"%s"' % m for m in members), gen.PROFILE))
    gen.copy_lock(ws, plan.wire_path, plan.eth)
    log("building %d shard crates in one workspace (%s)" % (plan.shards, ws))
    try:
        rc, out, dt = run_cargo(ws, ["build", "--offline", "--release", "--workspace"], timeout=3600)
    except subprocess.TimeoutExpired:
        rc, out, dt = 1, "cargo build timed out", 3600
    log("workspace build rc=%d in %.1fs" % (rc, dt))
    shutil.rmtree(ws, ignore_errors=True)
    if rc != 0:
        with open(marker, "w") as fh:
            fh.write(out[-4000:])
        return False
    return True


def build_single(plan, only_case, obs):
    """Build this shard's crate on its own, dropping definitions the compiler rejects.
    Returns (binary path or None, pkg, excluded definition numbers, inconclusive text or None)."""
    pool = gen.generate(plan.seed, plan.shard, plan.count)
    suffix = ("-c%d" % only_case) if only_case is not None else "-solo"
    pkg = plan.pkg(plan.shard) + suffix
    d = os.path.join(BASE, "s%d-%d%s" % (plan.seed, plan.shard, suffix if only_case is not None else ""))
    excluded, message = set(), None
    eth = plan.eth
    rt_dir = plan.rt_dir
    for attempt in range(6):
        shutil.rmtree(d, ignore_errors=True)
        if only_case is not None:
            emit_idx, report_idx = gen.select(pool, only_case=only_case)
        else:
            keep = [x.idx for x in pool if x.idx not in excluded and not (set(x.deps) & excluded)]
            emit_idx, report_idx = gen.select(pool, subset=keep)
        if eth != plan.eth:
            rt_dir = os.path.join(BASE, "rt-%s" % hashlib.sha256(("%s|%s|%s" % (plan.tdig, plan.wire_path, eth)).encode()).hexdigest()[:10])
        gen.emit(pool, emit_idx, report_idx, d, pkg, plan.wire_path, eth, plan.seed, plan.shard, rt_dir=rt_dir, standalone=True)
        try:
            rc, out, dt = run_cargo(d, ["build", "--offline", "--release"], timeout=3600)
        except subprocess.TimeoutExpired:
            rc, out, dt = 1, "cargo build timed out", 3600
        log("single build attempt %d rc=%d in %.1fs (%d definitions)" % (attempt, rc, dt, len(emit_idx)))
        if rc == 0:
            if not getattr(plan, "keep", False):
                shutil.rmtree(d, ignore_errors=True)
            inconclusive = None
            if excluded:
                inconclusive = "definitions %s rejected at compile time (generator bug or macro rejecting a well-formed definition), not judged: %s" % (sorted(excluded), message)
            return os.path.join(TARGET, "release", pkg), pkg, excluded, inconclusive
        with open(os.path.join(d, "src", "main.rs")) as fh:
            bad = failing_definitions(out, fh.read())
        if only_case is None and bad - excluded:
            message = message or first_error(out)
            for b in sorted(bad):
                excluded.add(b)
            continue
        if eth is not None and re.search(r"could not compile `ethercrab`", out):
            obs.setdefault("build", []).append("the ethercrab crate did not build; its public wire types were not checked: " + first_error(out)[:400])
            eth = None
            continue
        shutil.rmtree(d, ignore_errors=True)
        return None, pkg, excluded, "build failed: " + first_error(out)
    shutil.rmtree(d, ignore_errors=True)
    return None, pkg, excluded, "build failed repeatedly: %s" % message


def main():
    ap = argparse.ArgumentParser()
    ap.add_argument("--seed", type=int, required=True)
    ap.add_argument("--shard", default="0/1")
    ap.add_argument("--tier", choices=sorted(TIERS), default="quick")
    ap.add_argument("--out", required=True)
    ap.add_argument("--only-case", type=int, default=None)
    ap.add_argument("--wire-path", default="/repo/ethercrab-wire")
    ap.add_argument("--no-ethercrab", action="store_true")
    ap.add_argument("--count", type=int, default=None)
    ap.add_argument("--values", type=int, default=None)
    ap.add_argument("--buffers", type=int, default=None)
    ap.add_argument("--keep", action="store_true", help="keep the generated crate directory (single build only)")
    ap.add_argument("--target-dir", default=None,
                    help="cargo target directory and scratch area (default /verif/target/wiregen/target resp. /verif/target/wiregen); "
                         "the mutation self-test points this at its scratch directory")
    a = ap.parse_args()
    if a.target_dir:
        global BASE, TARGET
        BASE = os.path.abspath(a.target_dir)
        TARGET = os.path.join(BASE, "target")
    a.shard_i, a.shard_n = (int(x) for x in a.shard.split("/"))
    assert 0 <= a.shard_i < a.shard_n
    plan = Plan(a)
    plan.keep = a.keep
    obs = {}
    inconclusive = None
    excluded = set()
    run_bin = None

    os.makedirs(BASE, exist_ok=True)
    with Lock():
        prune_stale()
        pkg = plan.pkg(plan.shard)
        binary = None
        if a.only_case is None and not a.keep:
            if plan.binary_valid(plan.shard) or build_workspace(plan):
                if plan.binary_valid(plan.shard):
                    binary = plan.binary(plan.shard)
        if binary is None:
            binary, pkg, excluded, inconclusive = build_single(plan, a.only_case, obs)
        if binary is not None:
            # private name: another run with the same parameters may clean up the shared one
            run_bin = "%s.run-%d" % (binary, os.getpid())
            os.link(binary, run_bin)
            remove_artifacts(pkg)

    pool = gen.generate(plan.seed, plan.shard, plan.count)
    result = None
    if run_bin is not None:
        cmd = [run_bin, "--seed", str(plan.seed), "--shard", str(plan.shard), "--values", str(plan.values), "--buffers", str(plan.buffers)]
        if a.only_case is not None:
            cmd += ["--only", str(a.only_case)]
        try:
            p = subprocess.run(cmd, stdout=subprocess.PIPE, stderr=subprocess.PIPE, text=True, timeout=3600)
            if p.returncode != 0:
                inconclusive = "the generated program exited with %d: %s" % (p.returncode, (p.stderr or "")[-600:])
            else:
                result = json.loads(p.stdout)
        except subprocess.TimeoutExpired:
            inconclusive = "the generated program did not finish within 3600 s"
        except json.JSONDecodeError as e:
            inconclusive = "unparsable output of the generated program: %s" % e
        finally:
            try:
                os.unlink(run_bin)
            except OSError:
                pass

    counters, distinct, samples, violations, vcounts = {}, [], [], [], {}
    evaluations = 0
    if result is not None:
        evaluations = result["evaluations"]
        counters.update(result["counters"])
        by_idx = {d.idx: d for d in pool}
        for i in result["defs_run"]:
            d = by_idx[i]
            for k, v in d.counters().items():
                counters[k] = counters.get(k, 0) + v
            if d.kind == "struct" and d.nontrivial():
                distinct.append(d.hash)
        distinct = sorted(set(distinct))
        counters["defs.total"] = len(result["defs_run"])
        counters["defs.nontrivial_distinct"] = len(distinct)
        if excluded:
            counters["defs.rejected_at_compile_time"] = len(excluded)
        # 2-4 samples: an enum, a struct with sub-byte fields and skips, a struct with nested/array fields
        sm = {s["case"]: s for s in result["samples"]}
        picks = []

        def pick(pred):
            for i in result["defs_run"]:
                d = by_idx[i]
                if i in sm and i not in picks and pred(d):
                    picks.append(i)
                    return
        pick(lambda d: d.kind == "enum" and len(d.variants) >= 3)
        pick(lambda d: d.kind == "struct" and 2 <= len(d.fields) <= 6 and any(f["bit_width"] < 8 for f in d.fields)
             and any(f["pre_skip_bits"] or f["post_skip_bits"] for f in d.fields))
        pick(lambda d: d.kind == "struct" and len(d.fields) <= 8 and any(f["def_ref"] >= 0 for f in d.fields))
        pick(lambda d: d.kind == "struct" and any(f["tag"].startswith("struct-array") for f in d.fields))
        for i in picks:
            d = by_idx[i]
            text = "\n\n".join(by_idx[j].text() for j in d.deps + [i]) if len(d.deps) <= 3 else d.text()
            samples.append({"case": i, "definition": text, "value": sm[i]["value"], "packed": sm[i]["packed"]})
        listed = {}
        for v in result["violations"]:
            sig = v["signature"]
            vcounts[sig] = vcounts.get(sig, 0) + v["count"]
            listed[sig] = listed.get(sig, 0) + 1
            if listed[sig] > MAX_LISTED_PER_SIGNATURE:
                continue
            detail = v["detail"]
            if len(detail) > DETAIL_MAX:
                detail = detail[:DETAIL_MAX] + " ...[%d more characters]" % (len(detail) - DETAIL_MAX)
            if v["case"] < INCRATE_BASE:
                detail += " | definition: " + by_idx[v["case"]].text().replace("\n", " ")[:700]
            violations.append({"signature": sig, "detail": detail,
                               "replay": {"case": v["case"], "seed": plan.seed, "shard": plan.shard, "shards": plan.shards,
                                          "tier": plan.tier, "sub": v["sub"], "failing_checks": v["count"]}})
        for k, v in result.get("observations", {}).items():
            obs.setdefault(k, []).extend(v)

    out = {
        "property": "C19",
        "seed": plan.seed,
        "shard": plan.shard,
        "shards": plan.shards,
        "tier": plan.tier,
        "evaluations": evaluations,
        "distinct": distinct,
        "counters": dict(sorted(counters.items())),
        "samples": samples,
        "observations": obs,
        "violations": violations,
        "violation_counts": dict(sorted(vcounts.items())),
        "inconclusive": inconclusive,
    }
    tmp = a.out + ".tmp"
    os.makedirs(os.path.dirname(os.path.abspath(a.out)), exist_ok=True)
    with open(tmp, "w") as fh:
        json.dump(out, fh, indent=1)
        fh.write("\n")
    os.replace(tmp, a.out)
    log("shard %d/%d: %d definitions, %d evaluations, %d violation signatures, inconclusive=%s" % (
        plan.shard, plan.shards, counters.get("defs.total", 0), evaluations, len(vcounts), inconclusive))
    return 0


if __name__ == "__main__":
    try:
        sys.exit(main())
    except Exception as e:  # harness failure
        import traceback
        traceback.print_exc()
        sys.exit(3)
