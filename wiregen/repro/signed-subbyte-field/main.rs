// C19:{unpack,roundtrip}-mismatch:struct-signed-subbyte
// A signed integer in a field narrower than 8 bits is accepted by the derive, packed as the low
// bits of its two's complement, but read back without sign extension.
use ethercrab_wire::{EtherCrabWireRead, EtherCrabWireReadWrite, EtherCrabWireWriteSized};

#[derive(Debug, Clone, Copy, PartialEq, EtherCrabWireReadWrite)]
#[wire(bits = 8)]
struct S {
    #[wire(bits = 4)]
    a: i8, // 4-bit two's complement: -8..=7
    #[wire(bits = 4)]
    b: u8,
}

fn main() {
    let v = S { a: -3, b: 5 };
    let packed = v.pack();
    let back = S::unpack_from_slice(&packed);
    println!("pack({v:?}) = {packed:02x?} (bits 0..4 = 0b1101 = -3 in 4 bits: as expected)");
    println!("unpack(pack(v)) = {back:?}, want Ok({v:?})");
    let ok = back == Ok(v);
    println!("{}", if ok { "ok" } else { "VIOLATED: negative value does not survive the round trip (no sign extension)" });
    std::process::exit(!ok as i32);
}
