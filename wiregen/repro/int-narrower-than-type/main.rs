// C19:panic-pack:struct-int-narrow, C19:unpack-spurious-short:struct-int-narrow
// "If a different bit width is desired, the #[wire] attribute is required" (derive docs): a multi-byte
// integer declared narrower than its Rust type (e.g. CoE INTEGER24 in an i32) compiles, but pack()
// always panics (unreachable!() in the primitive's pack_to_slice_unchecked, which insists on
// size_of::<T>() bytes) and unpack always fails with ReadBufferTooShort, whatever the buffer length.
use ethercrab_wire::{EtherCrabWireRead, EtherCrabWireReadWrite, EtherCrabWireWriteSized};

#[derive(Debug, Clone, Copy, PartialEq, EtherCrabWireReadWrite)]
#[wire(bytes = 4)]
struct S {
    #[wire(bits = 24)]
    a: u32,
    #[wire(bits = 8)]
    b: u8,
}

fn main() {
    std::panic::set_hook(Box::new(|_| {}));
    let unpacked = S::unpack_from_slice(&[0x11, 0x22, 0x33, 0x44, 0, 0, 0, 0]);
    println!("unpack(8 bytes, 4 needed) = {unpacked:?}, want Ok(S {{ a: 0x332211, b: 0x44 }})");
    let packed = std::panic::catch_unwind(|| S { a: 0x332211, b: 0x44 }.pack());
    println!("pack() = {:?}, want [11, 22, 33, 44]", packed.as_ref().map_err(|_| "PANIC"));
    let ok = unpacked == Ok(S { a: 0x332211, b: 0x44 }) && packed.map_or(false, |p| p == [0x11, 0x22, 0x33, 0x44]);
    println!("{}", if ok { "ok" } else { "VIOLATED" });
    std::process::exit(!ok as i32);
}
