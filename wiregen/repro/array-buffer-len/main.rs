// Observation "incrate.buffer_len" (not judged by C19: `buffer()` is not part of the statement):
// `impl EtherCrabWireSized for [T; N]` (T a multi-byte primitive) declares PACKED_LEN = N * size
// but `type Buffer = [u8; N]`, so the buffer handed out cannot hold the packed image.
use ethercrab_wire::{EtherCrabWireRead, EtherCrabWireSized};

fn main() {
    let buf = <[u16; 3]>::buffer();
    println!("<[u16; 3]>::PACKED_LEN = {}, buffer().len() = {}", <[u16; 3]>::PACKED_LEN, buf.len());
    println!("unpack_from_slice(&buffer()) = {:?}", <[u16; 3]>::unpack_from_slice(&buf));
    let ok = buf.len() == <[u16; 3]>::PACKED_LEN;
    println!("{}", if ok { "ok" } else { "MISMATCH" });
    std::process::exit(!ok as i32);
}
