// C19:{pack,unpack,roundtrip}-mismatch:enum-implicit-first / enum-implicit-after-alternatives
// The derive numbers variants without a written discriminant itself: it starts at 1 instead of 0
// and continues after the last *alternative* instead of after the previous discriminant, so its
// decode table (and, with a catch-all, its encode table) disagrees with the Rust enum.
use ethercrab_wire::{EtherCrabWireRead, EtherCrabWireReadWrite, EtherCrabWireWriteSized};

#[derive(Debug, Clone, Copy, PartialEq, EtherCrabWireReadWrite)]
#[repr(u8)]
enum First { A, B, C } // Rust: A = 0, B = 1, C = 2

#[derive(Debug, Clone, Copy, PartialEq, EtherCrabWireReadWrite)]
#[repr(u8)]
enum FirstCatchAll { A, B, #[wire(catch_all)] Other(u8) }

#[derive(Debug, Clone, Copy, PartialEq, EtherCrabWireReadWrite)]
#[repr(u8)]
enum AfterAlt { #[wire(alternatives = [9])] A = 5, B } // Rust: B = 6

fn main() {
    let mut bad = 0;
    let mut check = |what: &str, ok: bool| { println!("{} {what}", if ok { "ok      " } else { "VIOLATED" }); bad += !ok as i32; };
    check(&format!("First::A as u8 = {}, pack() = {:?}", First::A as u8, First::A.pack()), First::A.pack() == [0]);
    check(&format!("First::unpack([0]) = {:?} (want Ok(A))", First::unpack_from_slice(&[0])), First::unpack_from_slice(&[0]) == Ok(First::A));
    check(&format!("First::unpack(pack(C)) = {:?} (want Ok(C))", First::unpack_from_slice(&First::C.pack())), First::unpack_from_slice(&First::C.pack()) == Ok(First::C));
    check(&format!("First::unpack([3]) = {:?} (want Err(InvalidValue))", First::unpack_from_slice(&[3])), First::unpack_from_slice(&[3]).is_err());
    check(&format!("FirstCatchAll::A.pack() = {:?} (want [0])", FirstCatchAll::A.pack()), FirstCatchAll::A.pack() == [0]);
    check(&format!("AfterAlt::B as u8 = {}, unpack([6]) = {:?} (want Ok(B))", AfterAlt::B as u8, AfterAlt::unpack_from_slice(&[6])), AfterAlt::unpack_from_slice(&[6]) == Ok(AfterAlt::B));
    check(&format!("AfterAlt::unpack([10]) = {:?} (want Err(InvalidValue))", AfterAlt::unpack_from_slice(&[10])), AfterAlt::unpack_from_slice(&[10]).is_err());
    std::process::exit((bad > 0) as i32);
}
