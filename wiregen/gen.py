#!/usr/bin/env python3
"""Generator for property C19: a cargo crate full of `#[derive(EtherCrabWire*)]` definitions.

  gen.py --seed S --count N --outdir DIR [--shard I] [--only-case K] [--wire-path P]
         [--ethercrab-path P | --no-ethercrab] [--name PKG]

Writes DIR/Cargo.toml, DIR/Cargo.lock (copy of the repo's), DIR/src/main.rs (definitions, their
layout descriptions as Rust statics, the definition table), DIR/rt/ (library crate `wiregen-rt`
holding copies of the static files template/{reference,driver,incrate}.rs; --rt-dir puts it
somewhere shared) and DIR/layouts.json (the same layouts for humans and for run.py).

Every definition obeys the rules the derive macro enforces at compile time:
  * a field narrower than 8 bits lies inside one byte,
  * a field of 8 bits or more starts and ends on a byte boundary,
  * the declared struct width equals the sum of field widths and skips,
  * enum alternatives are non-negative literals, one catch-all / one default at most.
The layout description is computed here from the *declared* attributes with Rust's own rules for
enum discriminants (implicit = previous + 1, first = 0); it does not look at the macro.
"""
import argparse, hashlib, json, os, random, re, shutil, sys

HERE = os.path.dirname(os.path.abspath(__file__))
TEMPLATE = os.path.join(HERE, "template")

PRIMS = {
    "u8": (8, False), "u16": (16, False), "u32": (32, False), "u64": (64, False),
    "i8": (8, True), "i16": (16, True), "i32": (32, True), "i64": (64, True),
}
RISKY = ("struct-int-narrow", "struct-signed-subbyte")


def h64(text):
    return int.from_bytes(hashlib.blake2b(text.encode(), digest_size=8).digest(), "big")


# --------------------------------------------------------------------------------------------
# Layout description objects (python side); rendered to Rust statics and to JSON
# --------------------------------------------------------------------------------------------

def ty_uint(bits): return {"kind": "uint", "container_bits": bits}
def ty_sint(bits): return {"kind": "sint", "container_bits": bits}
def ty_bool(): return {"kind": "bool"}
def ty_float(bits): return {"kind": "float", "bits": bits}
def ty_enum(d): return {"kind": "enum", "def": d.idx, "name": d.name}
def ty_struct(d): return {"kind": "struct", "def": d.idx, "name": d.name}
def ty_array(elem, n, stride): return {"kind": "array", "elem": elem, "n": n, "stride_bits": stride}
def ty_tuple(members): return {"kind": "tuple", "members": members}


def ty_rust(t):
    k = t["kind"]
    if k == "uint": return "Ty::UInt { container_bits: %d }" % t["container_bits"]
    if k == "sint": return "Ty::SInt { container_bits: %d }" % t["container_bits"]
    if k == "bool": return "Ty::Bool"
    if k == "float": return "Ty::Float { bits: %d }" % t["bits"]
    if k == "enum": return "Ty::Enum(&L_%s)" % t["name"]
    if k == "struct": return "Ty::Struct(&L_%s)" % t["name"]
    if k == "array":
        return "Ty::Array { elem: &%s, n: %d, stride_bits: %d }" % (ty_rust(t["elem"]), t["n"], t["stride_bits"])
    if k == "tuple":
        ms = ", ".join("TupleMember { bit_offset: %d, bit_width: %d, ty: %s }" % (m["bit_offset"], m["bit_width"], ty_rust(m["ty"]))
                       for m in t["members"])
        return "Ty::Tuple(&[%s])" % ms
    raise AssertionError(k)


class EnumDef:
    kind = "enum"

    def __init__(self):
        self.idx = 0
        self.name = ""
        self.repr = "u8"
        self.variants = []   # dict(name, explicit, literal, alts, catch_all, default, disc)
        self.mode = "rw"
        self.wire_attr = None
        self.deps = []
        self.nestable = True

    @property
    def bits(self): return PRIMS[self.repr][0]
    @property
    def signed(self): return PRIMS[self.repr][1]

    def all_values(self):
        out = []
        for v in self.variants:
            if not v["catch_all"]:
                out.append(v["disc"])
                out.extend(v["alts"])
        return out

    def small_bits(self):
        """Bits needed so every defined value fits an unsigned sub-byte field; None if impossible."""
        if self.repr != "u8":
            return None
        m = max(self.all_values() or [0])
        return max(1, m.bit_length())

    def has_catch_all(self): return any(v["catch_all"] for v in self.variants)
    def has_default(self): return any(v["default"] for v in self.variants)
    def has_implicit(self): return any(v["explicit"] is None and not v["catch_all"] for v in self.variants)

    def implicit_class(self):
        """Which kind of implicit discriminant the enum has (most specific first), "" if none.

        For every unit variant without a written discriminant walk back over the run of implicit
        variants to where the numbering restarts: the start of the enum, or an explicit variant.
        """
        classes = set()
        for i, v in enumerate(self.variants):
            if v["catch_all"] or v["explicit"] is not None:
                continue
            j = i - 1
            alts = False
            while j >= 0 and self.variants[j]["explicit"] is None:
                alts = alts or bool(self.variants[j]["alts"])
                j -= 1
            if j < 0:
                classes.add("enum-implicit-first")
            elif alts or self.variants[j]["alts"]:
                classes.add("enum-implicit-after-alternatives")
            else:
                classes.add("enum-implicit-after-explicit")
        for c in ("enum-implicit-first", "enum-implicit-after-alternatives", "enum-implicit-after-explicit"):
            if c in classes:
                return c
        return ""

    def risk(self):
        return self.implicit_class() or "enum-explicit"

    def derive_name(self):
        return {"rw": "EtherCrabWireReadWrite", "r": "EtherCrabWireRead", "w": "EtherCrabWireWrite"}[self.mode]

    def text(self, name=None, names=None):
        name = name or self.name
        derives = ["Debug", "Clone", "Copy", "PartialEq"]
        if self.has_default():
            derives.append("Default")
        derives.append("ethercrab_wire::" + self.derive_name())
        out = ["#[derive(%s)]" % ", ".join(derives)]
        if self.wire_attr:
            out.append("#[wire(%s)]" % self.wire_attr)
        out.append("#[repr(%s)]" % self.repr)
        out.append("pub enum %s {" % name)
        for v in self.variants:
            if v["alts"]:
                out.append("    #[wire(alternatives = [%s])]" % ", ".join(v["alt_literals"]))
            if v["catch_all"]:
                out.append("    #[wire(catch_all)]")
            if v["default"]:
                out.append("    #[default]")
            body = v["name"] + ("(%s)" % self.repr if v["catch_all"] else "")
            if v["explicit"] is not None:
                body += " = " + v["literal"]
            out.append("    %s," % body)
        out.append("}")
        return "\n".join(out)

    def conv_text(self):
        o = ["impl Conv for %s {" % self.name, "    fn to_val(&self) -> Val {", "        match self {"]
        for i, v in enumerate(self.variants):
            if v["catch_all"]:
                o.append("            %s::%s(x) => Val::Enum(%d, *x as i128)," % (self.name, v["name"], i))
            else:
                o.append("            %s::%s => Val::Enum(%d, 0)," % (self.name, v["name"], i))
        o += ["        }", "    }", "    fn from_val(v: &Val) -> Self {", "        match v {"]
        for i, v in enumerate(self.variants):
            if v["catch_all"]:
                o.append("            Val::Enum(%d, p) => %s::%s(*p as %s)," % (i, self.name, v["name"], self.repr))
            else:
                o.append("            Val::Enum(%d, _) => %s::%s," % (i, self.name, v["name"]))
        o += ['            _ => panic!("driver: bad enum value"),', "        }", "    }", "}"]
        return "\n".join(o)

    def layout_json(self):
        return {
            "kind": "enum", "name": self.name, "repr": self.repr, "repr_bits": self.bits, "signed": self.signed,
            "width_bits": self.bits, "implicit_class": self.implicit_class(),
            "variants": [{"name": v["name"], "values": ([] if v["catch_all"] else [v["disc"]] + v["alts"]),
                          "catch_all": v["catch_all"], "default": v["default"],
                          "implicit": v["explicit"] is None} for v in self.variants],
        }

    def layout_rust(self):
        vs = []
        for v in self.variants:
            vals = [] if v["catch_all"] else [v["disc"]] + v["alts"]
            vs.append('VariantLayout { name: "%s", values: &[%s], catch_all: %s, default: %s, implicit: %s }' % (
                v["name"], ", ".join(str(x) for x in vals), str(v["catch_all"]).lower(), str(v["default"]).lower(),
                str(v["explicit"] is None).lower()))
        return ('static L_%s: EnumLayout = EnumLayout { name: "%s", repr_bits: %d, signed: %s, variants: &[\n    %s,\n], implicit_class: "%s" };'
                % (self.name, self.name, self.bits, str(self.signed).lower(), ",\n    ".join(vs), self.implicit_class()))

    def type_expr(self): return self.name
    def top_expr(self): return "Top::Enum(&L_%s)" % self.name

    def counters(self):
        c = {"defs.enum": 1, "defs.mode.%s" % self.mode: 1, "enum.repr.%s" % self.repr: 1,
             "enum.variants": len(self.variants)}
        units = [v for v in self.variants if not v["catch_all"]]
        if any(v["explicit"] is None for v in units): c["enum.implicit_discriminants"] = 1
        if all(v["explicit"] is None for v in units): c["enum.all_implicit"] = 1
        if any(v["explicit"] is not None for v in units): c["enum.explicit_discriminants"] = 1
        if any(v["alts"] for v in units): c["enum.alternatives"] = 1
        if self.has_catch_all(): c["enum.catch_all"] = 1
        if self.has_default(): c["enum.default"] = 1
        if self.has_catch_all() and self.has_default(): c["enum.catch_all_and_default"] = 1
        if not self.has_catch_all() and not self.has_default(): c["enum.strict"] = 1
        if any(x < 0 for x in self.all_values()): c["enum.negative_discriminants"] = 1
        if self.wire_attr: c["enum.wire_width_attr"] = 1
        ic = self.implicit_class()
        if ic: c["enum.class." + ic] = 1
        return c


class StructDef:
    kind = "struct"

    def __init__(self):
        self.idx = 0
        self.name = ""
        self.width_bits = 0
        self.width_attr = "bits"
        self.fields = []
        self.mode = "rw"
        self.packed = None          # None | "packed" | "C, packed"
        self.generic = None         # None | dict(field index, inst (rust type text), style)
        self.deps = []
        self.nestable = True
        self.depth = 0

    def derive_name(self):
        return {"rw": "EtherCrabWireReadWrite", "r": "EtherCrabWireRead", "w": "EtherCrabWireWrite"}[self.mode]

    def risk(self):
        for f in self.fields:
            if f["tag"] in RISKY:
                return f["tag"]
        return "struct-plain"

    def text(self, name=None):
        name = name or self.name
        out = ["#[derive(Debug, Clone, Copy, PartialEq, ethercrab_wire::%s)]" % self.derive_name()]
        if self.packed:
            out.append("#[repr(%s)]" % self.packed)
        if self.width_attr == "bytes":
            out.append("#[wire(bytes = %d)]" % (self.width_bits // 8))
        else:
            out.append("#[wire(bits = %d)]" % self.width_bits)
        bound = "ethercrab_wire::" + self.derive_name()
        if self.generic is None:
            out.append("pub struct %s {" % name)
        elif self.generic["style"] == "where":
            out.append("pub struct %s<T>\nwhere\n    T: %s,\n{" % (name, bound))
        else:
            out.append("pub struct %s<T: %s> {" % (name, bound))
        for i, f in enumerate(self.fields):
            for a in f["attrs"]:
                out.append("    #[wire(%s)]" % a)
            ty = "T" if (self.generic and self.generic["field"] == i) else f["rust_type"]
            out.append("    pub %s: %s," % (f["name"], ty))
        out.append("}")
        return "\n".join(out)

    def type_expr(self):
        if self.generic:
            return "%s<%s>" % (self.name, self.generic["inst"])
        return self.name

    def conv_text(self):
        t = self.type_expr()
        o = ["impl Conv for %s {" % t, "    fn to_val(&self) -> Val {", "        Val::Seq(vec!["]
        for f in self.fields:
            o.append("            { let x = self.%s; x.to_val() }," % f["name"])
        o += ["        ])", "    }", "    fn from_val(v: &Val) -> Self {",
              '        let Val::Seq(xs) = v else { panic!("driver: struct value expected") };', "        %s {" % self.name]
        for i, f in enumerate(self.fields):
            o.append("            %s: Conv::from_val(&xs[%d])," % (f["name"], i))
        o += ["        }", "    }", "}"]
        return "\n".join(o)

    def layout_json(self):
        return {"kind": "struct", "name": self.name, "width_bits": self.width_bits,
                "packed_len": (self.width_bits + 7) // 8,
                "fields": [{k: f[k] for k in ("name", "rust_type", "bit_offset", "bit_width", "ty", "skip", "pre_skip_bits",
                                              "post_skip_bits", "tag", "def_ref")} for f in self.fields]}

    def layout_rust(self):
        fs = []
        for f in self.fields:
            fs.append('FieldLayout { name: "%s", bit_offset: %d, bit_width: %d, ty: %s, skip: %s, pre_skip_bits: %d, post_skip_bits: %d, tag: "%s", def_ref: %d }' % (
                f["name"], f["bit_offset"], f["bit_width"], ty_rust(f["ty"]), str(f["skip"]).lower(), f["pre_skip_bits"],
                f["post_skip_bits"], f["tag"], f["def_ref"]))
        return 'static L_%s: StructLayout = StructLayout { name: "%s", width_bits: %d, fields: &[\n    %s,\n] };' % (
            self.name, self.name, self.width_bits, ",\n    ".join(fs))

    def top_expr(self): return "Top::Struct(&L_%s)" % self.name

    def nontrivial(self):
        real = [f for f in self.fields if not f["skip"]]
        return len(self.fields) >= 2 or any(f["bit_width"] < 8 for f in real)

    def counters(self):
        c = {"defs.struct": 1, "defs.mode.%s" % self.mode: 1, "struct.fields": len(self.fields),
             "struct.fields_hist.%02d" % len(self.fields): 1, "struct.width_attr.%s" % self.width_attr: 1}
        if self.packed: c["struct.repr_packed"] = 1
        if self.generic: c["struct.generic"] = 1
        if self.width_bits % 8: c["struct.width_not_byte_multiple"] = 1
        if self.depth: c["struct.nesting_depth.%d" % self.depth] = 1
        for f in self.fields:
            k = "field." + f["tag"][len("struct-"):]
            c[k] = c.get(k, 0) + 1
            for kk in f["count_keys"]:
                c[kk] = c.get(kk, 0) + 1
            wb = f["bit_width"]
            if not f["skip"]:
                bucket = "1-7" if wb < 8 else "8" if wb == 8 else "9-16" if wb <= 16 else "17-32" if wb <= 32 else "33-64" if wb <= 64 else "65+"
                c["field.width_bits." + bucket] = c.get("field.width_bits." + bucket, 0) + 1
        return c


# --------------------------------------------------------------------------------------------
# Random definitions
# --------------------------------------------------------------------------------------------

def wchoice(rng, pairs):
    total = sum(w for _, w in pairs)
    x = rng.random() * total
    for v, w in pairs:
        x -= w
        if x < 0:
            return v
    return pairs[-1][0]


def int_literal(rng, v, repr_):
    neg = v < 0
    a = abs(v)
    style = rng.randrange(6)
    if style == 0:
        s = hex(a)
    elif style == 1 and a >= 1000:
        s = "{:_}".format(a)
    elif style == 2:
        s = "%d%s" % (a, repr_) if not neg else str(a)
    elif style == 3 and a > 0xff:
        hx = "%x" % a
        # 0x12_34 style
        parts = []
        while hx:
            parts.insert(0, hx[-4:])
            hx = hx[:-4]
        s = "0x" + "_".join(parts)
    else:
        s = str(a)
    return ("-" + s) if neg else s


def gen_enum(rng, idx, force_small=None):
    e = EnumDef()
    e.idx = idx
    e.name = "E%d" % idx
    e.repr = wchoice(rng, [("u8", 50), ("i8", 8), ("u16", 12), ("i16", 6), ("u32", 8), ("i32", 6), ("u64", 5), ("i64", 5)])
    small_k = None
    if force_small or (e.repr == "u8" and rng.random() < 0.5):
        e.repr = "u8"
        small_k = rng.randint(1, 7)
    e.mode = wchoice(rng, [("rw", 75), ("r", 15), ("w", 10)])
    bits, signed = e.bits, e.signed
    lo, hi = (-(1 << (bits - 1)), (1 << (bits - 1)) - 1) if signed else (0, (1 << bits) - 1)
    if small_k:
        lo, hi = 0, (1 << small_k) - 1
    # Headroom at the top so implicit successors (however they are counted) stay in range.
    hi_disc = hi if small_k else hi - 24
    span = hi_disc - lo + 1
    nvar = min(rng.randint(1, 8), max(1, span // 2 if small_k else 8))
    style = wchoice(rng, [("explicit", 45), ("implicit", 15), ("mixed", 40)])
    want_catch = rng.random() < 0.30 and e.mode != "?"
    want_default = rng.random() < 0.25
    want_alts = rng.random() < 0.30
    if small_k and small_k <= 1:
        want_alts = False

    def rand_value():
        r = rng.random()
        if small_k:
            return rng.randint(lo, hi_disc)
        if r < 0.5:
            return rng.randint(max(lo, -20), min(hi_disc, 40))
        if r < 0.6:
            return rng.choice([lo, hi_disc, lo + 1, hi_disc - 1, 0])
        if signed and r < 0.8:
            return rng.randint(lo, -1)
        return rng.randint(lo, hi_disc)

    for _attempt in range(200):
        used = set()
        variants = []
        prev = None  # rust discriminant of previous variant
        ok = True
        catch_pos = rng.randrange(nvar + 1) if want_catch else -1
        if want_catch and rng.random() < 0.6:
            catch_pos = nvar
        n_total = nvar + (1 if want_catch else 0)
        ui = 0
        for pos in range(n_total):
            is_catch = (pos == catch_pos)
            explicit = None
            if not is_catch:
                if style == "explicit" or (style == "mixed" and rng.random() < 0.6):
                    explicit = rand_value()
                    if style != "explicit" and prev is not None and rng.random() < 0.5:
                        explicit = prev + rng.randint(1, 6)   # ascending, natural looking
            elif rng.random() < 0.1:
                explicit = rand_value()
            disc = explicit if explicit is not None else (0 if prev is None else prev + 1)
            if disc < lo or disc > hi_disc or disc in used:
                ok = False
                break
            used.add(disc)
            prev = disc
            v = {"name": ("Other%d" % pos if is_catch else "V%d" % ui), "explicit": explicit,
                 "literal": int_literal(rng, explicit, e.repr) if explicit is not None else None,
                 "alts": [], "alt_literals": [], "catch_all": is_catch, "default": False, "disc": disc}
            if not is_catch:
                ui += 1
            variants.append(v)
        if not ok:
            continue
        # alternatives: non-negative literals, unique, away from everything the following implicit variants can take
        if want_alts:
            units = [v for v in variants if not v["catch_all"]]
            for v in rng.sample(units, min(len(units), rng.randint(1, 2))):
                for _ in range(rng.randint(1, 5)):
                    a = rng.randint(max(0, lo), hi_disc) if small_k or rng.random() < 0.4 else rng.randint(0, min(hi_disc, 300))
                    if a in used:
                        continue
                    used.add(a)
                    v["alts"].append(a)
                    v["alt_literals"].append(int_literal(rng, a, e.repr) if rng.random() < 0.5 else str(a))
            # rust discriminants of implicit variants are unaffected by alternatives, but they must not
            # coincide with an alternative (checked through `used` above since discs were inserted first)
        if want_default:
            units = [v for v in variants if not v["catch_all"]]
            rng.choice(units)["default"] = True
        e.variants = variants
        break
    else:
        # fall back to something always valid
        e.variants = [{"name": "V0", "explicit": 1 if hi >= 1 else 0, "literal": "1" if hi >= 1 else "0", "alts": [], "alt_literals": [],
                       "catch_all": False, "default": False, "disc": 1 if hi >= 1 else 0}]
    if rng.random() < 0.15:
        e.wire_attr = rng.choice(["bits = %d" % bits, "bytes = %d" % (bits // 8)])
    return e


def field_attrs(rng, width_attr, pre, post):
    """Render #[wire(...)] attribute strings. width_attr: None|('bits',n)|('bytes',n); pre/post: None|('bits'|'bytes', n)."""
    items = []
    if width_attr:
        items.append("%s = %d" % width_attr)
    if pre:
        items.append("%s = %d" % ("pre_skip" if pre[0] == "bits" else "pre_skip_bytes", pre[1]))
    if post:
        items.append("%s = %d" % ("post_skip" if post[0] == "bits" else "post_skip_bytes", post[1]))
    if not items:
        return []
    rng.shuffle(items)
    if len(items) > 1 and rng.random() < 0.12:
        k = rng.randint(1, len(items) - 1)
        return [", ".join(items[:k]), ", ".join(items[k:])]
    return [", ".join(items)]


def skip_form(rng, nbits):
    if nbits % 8 == 0 and rng.random() < 0.5:
        return ("bytes", nbits // 8)
    return ("bits", nbits)


def mode_ok(parent_mode, child_mode):
    if child_mode == "rw":
        return True
    return parent_mode == child_mode


def gen_struct(rng, idx, pool, tiny=False):
    s = StructDef()
    s.idx = idx
    s.name = "S%d" % idx
    s.mode = wchoice(rng, [("rw", 68), ("r", 22), ("w", 10)])
    enums = [d for d in pool if d.kind == "enum" and mode_ok(s.mode, d.mode)]
    structs = [d for d in pool if d.kind == "struct" and mode_ok(s.mode, d.mode) and d.nestable and d.depth < 3 and d.generic is None]
    small_enums = [d for d in enums if d.small_bits() is not None and d.small_bits() <= 7]
    tiny_structs = [d for d in structs if d.width_bits <= 7]
    big_structs = [d for d in structs if d.width_bits >= 8]

    def pick_enum(cands):
        plain = [d for d in cands if not d.has_implicit()]
        if plain and rng.random() < 0.65:
            return rng.choice(plain)
        return rng.choice(cands)

    if tiny:
        nfields = rng.randint(1, 3)
    else:
        nfields = wchoice(rng, [(1, 6), (2, 10), (3, 12), (4, 12), (5, 10), (6, 10), (7, 8), (8, 8), (9, 6), (10, 6), (11, 6), (12, 6)])
    allow_risky = (not tiny) and rng.random() < 0.10
    risky_used = False
    menu = [("bool", 15), ("u8sub", 18), ("u8", 7), ("i8", 3), ("int", 18), ("float", 3)]
    if small_enums: menu.append(("enumsub", 8))
    if enums: menu.append(("enum", 8))
    if tiny_structs: menu.append(("nestedsub", 5))
    if big_structs: menu.append(("nested", 9))
    menu.append(("arrayu8", 5))
    if s.mode == "r": menu.append(("arrayx", 9))
    menu.append(("tuple", 2))
    menu.append(("skipfield", 1.2))
    if tiny:
        menu = [m for m in menu if m[0] in ("bool", "u8sub", "enumsub")]

    pos = 0
    fields = []
    budget_bits = 7 if tiny else 10_000

    def last_real():
        for f in reversed(fields):
            if not f["skip"]:
                return f
        return None

    for fi in range(nfields):
        kind = wchoice(rng, menu)
        if allow_risky and not risky_used and rng.random() < 0.5:
            kind = rng.choice(["signedsub", "narrow"])
            risky_used = True
        f = {"name": "f%d" % fi, "skip": False, "def_ref": -1, "count_keys": [], "pre_skip_bits": 0, "post_skip_bits": 0}
        auto_ok = False
        # ---- decide type and width --------------------------------------------------------
        if kind == "bool":
            w = 1 if rng.random() < 0.9 else rng.randint(2, 4)
            f.update(rust_type="bool", ty=ty_bool(), tag="struct-bool")
        elif kind == "u8sub":
            w = rng.randint(1, 7)
            f.update(rust_type="u8", ty=ty_uint(8), tag="struct-u8-subbyte")
        elif kind == "u8":
            w = 8
            auto_ok = True
            f.update(rust_type="u8", ty=ty_uint(8), tag="struct-u8")
        elif kind == "i8":
            w = 8
            auto_ok = True
            f.update(rust_type="i8", ty=ty_sint(8), tag="struct-i8")
        elif kind == "int":
            t = rng.choice(["u16", "u32", "u64", "i16", "i32", "i64"])
            w, sg = PRIMS[t]
            auto_ok = True
            f.update(rust_type=t, ty=(ty_sint(w) if sg else ty_uint(w)), tag="struct-sint-multibyte" if sg else "struct-uint-multibyte")
        elif kind == "float":
            t = rng.choice(["f32", "f64"])
            w = 32 if t == "f32" else 64
            auto_ok = (t == "f64")     # f32 is never left to the macro's automatic width
            f.update(rust_type=t, ty=ty_float(w), tag="struct-float")
        elif kind == "enumsub":
            d = pick_enum(small_enums)
            k = d.small_bits()
            w = k if rng.random() < 0.7 else rng.randint(k, 7)
            f.update(rust_type=d.name, ty=ty_enum(d), tag="struct-enum-subbyte", def_ref=d.idx)
        elif kind == "enum":
            d = pick_enum(enums)
            w = d.bits
            f.update(rust_type=d.name, ty=ty_enum(d), tag="struct-enum", def_ref=d.idx)
        elif kind == "nestedsub":
            d = rng.choice(tiny_structs)
            w = d.width_bits if rng.random() < 0.75 else rng.randint(d.width_bits, 7)
            f.update(rust_type=d.name, ty=ty_struct(d), tag="struct-nested-subbyte", def_ref=d.idx)
        elif kind == "nested":
            d = rng.choice(big_structs)
            w = ((d.width_bits + 7) // 8) * 8
            f.update(rust_type=d.name, ty=ty_struct(d), tag="struct-nested", def_ref=d.idx)
        elif kind == "arrayu8":
            n = rng.randint(1, 8)
            w = 8 * n
            f.update(rust_type="[u8; %d]" % n, ty=ty_array(ty_uint(8), n, 8), tag="struct-array-u8")
        elif kind == "arrayx":
            n = rng.randint(1, 5)
            sub = wchoice(rng, [("prim", 50), ("bool", 8), ("float", 8), ("enum", 17 if enums else 0), ("struct", 17 if structs else 0)])
            if sub == "prim":
                t = rng.choice(["u16", "u32", "u64", "i8", "i16", "i32", "i64"])
                eb, sg = PRIMS[t]
                f.update(rust_type="[%s; %d]" % (t, n), ty=ty_array(ty_sint(eb) if sg else ty_uint(eb), n, eb), tag="struct-array-prim")
            elif sub == "bool":
                eb = 8
                f.update(rust_type="[bool; %d]" % n, ty=ty_array(ty_bool(), n, 8), tag="struct-array-bool")
            elif sub == "float":
                t = rng.choice(["f32", "f64"])
                eb = 32 if t == "f32" else 64
                f.update(rust_type="[%s; %d]" % (t, n), ty=ty_array(ty_float(eb), n, eb), tag="struct-array-float")
            elif sub == "enum":
                d = pick_enum(enums)
                eb = d.bits
                f.update(rust_type="[%s; %d]" % (d.name, n), ty=ty_array(ty_enum(d), n, eb), tag="struct-array-enum", def_ref=d.idx)
            else:
                d = rng.choice(structs)
                eb = ((d.width_bits + 7) // 8) * 8
                f.update(rust_type="[%s; %d]" % (d.name, n), ty=ty_array(ty_struct(d), n, eb), tag="struct-array-struct", def_ref=d.idx)
            w = eb * n
        elif kind == "tuple":
            n = rng.randint(1, 4)
            members, off, names = [], 0, []
            for _ in range(n):
                t = rng.choice(["u8", "u16", "u32", "u64", "i8", "i16", "i32", "i64", "f32", "f64"])
                if t in PRIMS:
                    eb, sg = PRIMS[t]
                    mt = ty_sint(eb) if sg else ty_uint(eb)
                else:
                    eb = 32 if t == "f32" else 64
                    mt = ty_float(eb)
                members.append({"bit_offset": off, "bit_width": eb, "ty": mt})
                names.append(t)
                off += eb
            w = off
            f.update(rust_type="(%s,)" % ", ".join(names), ty=ty_tuple(members), tag="struct-tuple")
        elif kind == "signedsub":
            w = rng.randint(1, 7)
            f.update(rust_type="i8", ty=ty_sint(8), tag="struct-signed-subbyte")
        elif kind == "narrow":
            t = rng.choice(["u16", "u32", "u64", "i16", "i32", "i64"])
            cb, sg = PRIMS[t]
            if rng.random() < 0.4:
                w = rng.randint(1, 8)
            else:
                w = 8 * rng.randint(1, cb // 8 - 1)
            f.update(rust_type=t, ty=(ty_sint(cb) if sg else ty_uint(cb)), tag="struct-int-narrow")
        elif kind == "skipfield":
            t = rng.choice(["u8", "u16", "u32", "bool", "i16"])
            if t == "bool":
                f.update(rust_type="bool", ty=ty_bool())
                cb = 1
            else:
                cb, sg = PRIMS[t]
                f.update(rust_type=t, ty=(ty_sint(cb) if sg else ty_uint(cb)))
            f.update(skip=True, tag="struct-skip-field", bit_offset=pos, bit_width=cb, attrs=["skip"])
            fields.append(f)
            continue
        else:
            raise AssertionError(kind)

        if tiny and pos + w > budget_bits:
            if fields:
                break
            w = min(w, budget_bits)

        # ---- place it ------------------------------------------------------------------------
        inbyte = pos % 8
        if w < 8:
            need_pad = 0 if inbyte + w <= 8 else 8 - inbyte
        else:
            need_pad = 0 if inbyte == 0 else 8 - inbyte
        skip_bits = need_pad
        if not tiny and rng.random() < 0.15:
            # extra skip: stay legal
            if w < 8:
                start = pos + need_pad
                room = 8 - (start % 8) - w
                extra = rng.randint(0, room) + 8 * rng.choice([0, 0, 1, 2])
            else:
                extra = 8 * rng.randint(1, 3)
            skip_bits += extra
        pre = post_prev = 0
        if skip_bits:
            lr = last_real()
            if lr is not None and lr["post_skip_bits"] == 0 and rng.random() < 0.5:
                post_prev = skip_bits
            elif lr is not None and lr["post_skip_bits"] == 0 and skip_bits > 1 and rng.random() < 0.2:
                post_prev = rng.randint(1, skip_bits - 1)
                pre = skip_bits - post_prev
            else:
                pre = skip_bits
        if post_prev:
            lr = last_real()
            lr["post_skip_bits"] = post_prev
            lr["post_form"] = skip_form(rng, post_prev)
        pos += skip_bits
        f["pre_skip_bits"] = pre
        f["pre_form"] = skip_form(rng, pre) if pre else None
        f["post_form"] = None
        f["bit_offset"] = pos
        f["bit_width"] = w
        if auto_ok and rng.random() < 0.35:
            f["width_form"] = None
            f["count_keys"].append("field.auto_width")
        elif w % 8 == 0 and rng.random() < 0.5:
            f["width_form"] = ("bytes", w // 8)
        else:
            f["width_form"] = ("bits", w)
        pos += w
        fields.append(f)

    if not any(not f["skip"] for f in fields):
        f = {"name": "f%d" % len(fields), "skip": False, "def_ref": -1, "count_keys": [], "pre_skip_bits": 0, "post_skip_bits": 0,
             "rust_type": "u8", "ty": ty_uint(8), "tag": "struct-u8-subbyte", "bit_offset": pos, "bit_width": min(3, budget_bits),
             "width_form": ("bits", min(3, budget_bits)), "pre_form": None, "post_form": None}
        pos += f["bit_width"]
        fields.append(f)

    # trailing skip
    lr = last_real()
    if not tiny and lr["post_skip_bits"] == 0 and rng.random() < 0.3:
        to_boundary = (8 - pos % 8) % 8
        t = to_boundary + 8 * rng.choice([0, 0, 0, 1, 2]) if rng.random() < 0.7 else rng.randint(1, 12)
        if t:
            lr["post_skip_bits"] = t
            lr["post_form"] = skip_form(rng, t)
            pos += t

    for f in fields:
        if f["skip"]:
            continue
        f["attrs"] = field_attrs(rng, f["width_form"], f["pre_form"], f["post_form"])
        if f["pre_form"]:
            f["count_keys"].append("field.pre_skip_" + f["pre_form"][0])
        if f["post_form"]:
            f["count_keys"].append("field.post_skip_" + f["post_form"][0])
        if f["width_form"]:
            f["count_keys"].append("field.width_attr_" + f["width_form"][0])

    s.fields = fields
    s.width_bits = pos
    s.width_attr = "bytes" if (pos % 8 == 0 and rng.random() < 0.5) else "bits"
    s.nestable = s.risk() == "struct-plain"
    refs = [f["def_ref"] for f in fields if f["def_ref"] >= 0]
    s.depth = 0
    for r in refs:
        d = pool[r]
        if d.kind == "struct":
            s.depth = max(s.depth, d.depth + 1)
    # repr(packed) / generic
    if not tiny and rng.random() < 0.08:
        s.packed = rng.choice(["packed", "C, packed"])
    elif not tiny and rng.random() < 0.07:
        cands = [i for i, f in enumerate(fields) if f["tag"] in ("struct-uint-multibyte", "struct-sint-multibyte", "struct-enum", "struct-nested", "struct-u8", "struct-array-u8")
                 and f["width_form"] is not None]
        if cands:
            i = rng.choice(cands)
            s.generic = {"field": i, "inst": fields[i]["rust_type"], "style": rng.choice(["inline", "where"])}
            fields[i]["count_keys"].append("field.generic_param")
    return s


def closure(pool, idx):
    seen = []

    def go(i):
        d = pool[i]
        refs = []
        if d.kind == "struct":
            refs = [f["def_ref"] for f in d.fields if f["def_ref"] >= 0]
        for r in refs:
            if r not in seen:
                go(r)
        if i not in seen:
            seen.append(i)
    go(idx)
    return sorted(seen)


def generate(seed, shard, count):
    rng = random.Random(int.from_bytes(hashlib.sha256(("wiregen:%d:%d" % (seed, shard)).encode()).digest()[:8], "big"))
    pool = []
    n_enum = max(2, round(count * 0.28))
    for i in range(count):
        if i < n_enum:
            d = gen_enum(rng, i, force_small=(i % 3 == 0))
        else:
            tiny = (i - n_enum) % 6 == 0
            d = gen_struct(rng, i, pool, tiny=tiny)
        pool.append(d)
    for d in pool:
        d.deps = [x for x in closure(pool, d.idx) if x != d.idx]
    # definition hashes: own name and referenced names replaced
    hashes = {}
    for d in pool:
        t = d.text(name="SELF")
        if d.kind == "struct":
            for f in d.fields:
                if f["def_ref"] >= 0:
                    t = re.sub(r"\b%s\b" % pool[f["def_ref"]].name, "#%016x" % hashes[f["def_ref"]], t)
        hashes[d.idx] = h64(t)
        d.hash = hashes[d.idx]
    return pool


# --------------------------------------------------------------------------------------------
# Crate emission
# --------------------------------------------------------------------------------------------

def template_digest():
    h = hashlib.sha256()
    for name in ("reference.rs", "driver.rs", "incrate.rs"):
        with open(os.path.join(TEMPLATE, name), "rb") as fh:
            h.update(fh.read())
    return h.hexdigest()[:12]


def write_rt(rt_dir, wire_path, ethercrab_path):
    """The static half of the generated program (reference packer, driver, in-crate checks) as a
    library crate `wiregen-rt`. Identical for every (seed, shard), so with a shared target
    directory it is compiled once. Written atomically (rename) because shards race to create it."""
    if os.path.exists(os.path.join(rt_dir, "Cargo.toml")):
        return
    tmp = "%s.tmp-%d" % (rt_dir.rstrip("/"), os.getpid())
    shutil.rmtree(tmp, ignore_errors=True)
    os.makedirs(os.path.join(tmp, "src"))
    deps = ['ethercrab-wire = { path = "%s", features = ["std"] }' % wire_path,
            'heapless = { version = "0.8.0", default-features = false }']
    features = "[features]\ndefault = []\nwith_ethercrab = []\n"
    if ethercrab_path:
        deps.append('ethercrab = { path = "%s", default-features = false, optional = true }' % ethercrab_path)
        features = '[features]\ndefault = ["with_ethercrab"]\nwith_ethercrab = ["dep:ethercrab"]\n'
    with open(os.path.join(tmp, "Cargo.toml"), "w") as fh:
        fh.write("""[package]
name = "wiregen-rt"
version = "0.0.0"
edition = "2024"
publish = false

[lib]
path = "src/lib.rs"

[dependencies]
%s

%s""" % ("\n".join(deps), features))
    with open(os.path.join(tmp, "src", "lib.rs"), "w") as fh:
        fh.write("//! Static runtime of the C19 generated programs (copied from wiregen/template).\n"
                 "#![allow(warnings)]\npub mod driver;\npub mod incrate;\npub mod reference;\n")
    for name in ("reference.rs", "driver.rs", "incrate.rs"):
        shutil.copy(os.path.join(TEMPLATE, name), os.path.join(tmp, "src", name))
    try:
        os.rename(tmp, rt_dir)
    except OSError:
        shutil.rmtree(tmp, ignore_errors=True)      # somebody else won the race
        if not os.path.exists(os.path.join(rt_dir, "Cargo.toml")):
            raise


PROFILE = """[profile.release]
opt-level = 2
debug = 0
overflow-checks = true
debug-assertions = false
panic = "unwind"
codegen-units = 16
incremental = false
"""


def copy_lock(outdir, wire_path, ethercrab_path):
    """The repo's Cargo.lock next to the manifest, so every version resolves offline."""
    lock_src = os.path.join(ethercrab_path or os.path.dirname(os.path.abspath(wire_path)), "Cargo.lock")
    if not os.path.exists(lock_src):
        lock_src = "/repo/Cargo.lock"
    if os.path.exists(lock_src):
        shutil.copy(lock_src, os.path.join(outdir, "Cargo.lock"))


def emit(pool, emit_idx, report_idx, outdir, pkg, wire_path, ethercrab_path, seed, shard, rt_dir=None, standalone=True):
    os.makedirs(os.path.join(outdir, "src"), exist_ok=True)
    rt_dir = os.path.abspath(rt_dir or os.path.join(outdir, "rt"))
    write_rt(rt_dir, wire_path, ethercrab_path)
    cargo = """[package]
name = "%s"
version = "0.0.0"
edition = "2024"
publish = false

[[bin]]
name = "%s"
path = "src/main.rs"

[dependencies]
ethercrab-wire = { path = "%s", features = ["std"] }
wiregen-rt = { path = "%s" }

%s""" % (pkg, pkg, wire_path, rt_dir, (PROFILE + "\n[workspace]\n") if standalone else "")
    with open(os.path.join(outdir, "Cargo.toml"), "w") as fh:
        fh.write(cargo)
    if standalone:
        copy_lock(outdir, wire_path, ethercrab_path)

    out = ["// Generated by wiregen/gen.py --seed %d --shard %d; do not edit." % (seed, shard),
           "#![allow(warnings)]", "use wiregen_rt::driver::{self, *};", "use wiregen_rt::reference::*;", ""]
    for i in emit_idx:
        d = pool[i]
        out.append("// ---- definition %d (hash %016x) ----" % (d.idx, d.hash))
        out.append(d.text())
        out.append(d.conv_text())
        out.append(d.layout_rust())
        out.append("")
    out.append("fn defs() -> Vec<Def> {")
    out.append("    vec![")
    for i in emit_idx:
        d = pool[i]
        ops = {"rw": "ops_rw", "r": "ops_r", "w": "ops_w"}[d.mode]
        out.append('        Def { index: %d, top: %s, ops: %s::<%s>(), deps: &[%s], risk: "%s" },' % (
            d.idx, d.top_expr(), ops, d.type_expr(), ", ".join(str(x) for x in d.deps), d.risk()))
    out.append("    ]")
    out.append("}")
    out.append("")
    out.append("fn main() {")
    out.append("    driver::run(defs(), &[%s]);" % ", ".join(str(i) for i in report_idx))
    out.append("}")
    with open(os.path.join(outdir, "src", "main.rs"), "w") as fh:
        fh.write("\n".join(out) + "\n")

    layouts = []
    for i in emit_idx:
        d = pool[i]
        layouts.append({
            "index": d.idx, "name": d.name, "kind": d.kind, "mode": d.mode, "hash": d.hash, "text": d.text(),
            "reported": i in report_idx,
            "nontrivial": (d.nontrivial() if d.kind == "struct" else False),
            "deps": d.deps, "risk": d.risk(), "layout": d.layout_json(), "counters": d.counters(),
        })
    with open(os.path.join(outdir, "layouts.json"), "w") as fh:
        json.dump({"seed": seed, "shard": shard, "package": pkg, "definitions": layouts}, fh, indent=1)
    return layouts


def resolve_paths(wire_path, ethercrab_path=None, no_ethercrab=False):
    """(absolute wire path, ethercrab path or None). ethercrab is only usable when it is the
    crate that contains this very ethercrab-wire (one lock file cannot hold two copies)."""
    wire_path = os.path.abspath(wire_path)
    eth = None
    if not no_ethercrab:
        eth = ethercrab_path
        if eth is None:
            parent = os.path.dirname(wire_path)
            if os.path.exists(os.path.join(parent, "Cargo.toml")) and os.path.isdir(os.path.join(parent, "src")):
                eth = parent
        if eth is not None:
            eth = os.path.abspath(eth)
            if os.path.abspath(os.path.join(eth, "ethercrab-wire")) != wire_path:
                eth = None
    return wire_path, eth


def select(pool, only_case=None, subset=None):
    """(definitions to emit, definitions to report)"""
    if only_case is not None and only_case < len(pool):
        return closure(pool, only_case), [only_case]
    if only_case is not None:
        return [], []          # an in-crate case: no generated definitions needed
    if subset is not None:
        want = sorted(set(subset))
        return sorted(set(x for w in want for x in closure(pool, w))), want
    return list(range(len(pool))), list(range(len(pool)))


def main():
    ap = argparse.ArgumentParser()
    ap.add_argument("--seed", type=int, required=True)
    ap.add_argument("--shard", type=int, default=0)
    ap.add_argument("--count", type=int, required=True)
    ap.add_argument("--outdir", required=True)
    ap.add_argument("--only-case", type=int, default=None, help="emit only this definition and what it refers to")
    ap.add_argument("--subset", default=None, help="comma separated definition numbers to emit (with what they refer to)")
    ap.add_argument("--wire-path", default="/repo/ethercrab-wire")
    ap.add_argument("--ethercrab-path", default=None,
                    help="ethercrab crate for the public in-crate types; default: parent of --wire-path if it is the repo root")
    ap.add_argument("--no-ethercrab", action="store_true")
    ap.add_argument("--name", default=None)
    ap.add_argument("--rt-dir", default=None, help="where the static runtime crate lives (default DIR/rt); reused if present")
    a = ap.parse_args()

    pool = generate(a.seed, a.shard, a.count)
    emit_idx, report_idx = select(pool, a.only_case, [int(x) for x in a.subset.split(",") if x != ""] if a.subset else None)
    wire_path, eth = resolve_paths(a.wire_path, a.ethercrab_path, a.no_ethercrab)
    pkg = a.name or ("wg-s%d-%d" % (a.seed, a.shard))
    emit(pool, emit_idx, report_idx, a.outdir, pkg, wire_path, eth, a.seed, a.shard, a.rt_dir)
    print(json.dumps({"definitions": len(pool), "emitted": len(emit_idx), "reported": len(report_idx),
                      "package": pkg, "with_ethercrab": eth is not None}))


if __name__ == "__main__":
    main()
