//! Static checks (property C19, "every in-crate wire type reachable through public API") of the
//! hand-written impls in `ethercrab-wire` and of the public wire types of `ethercrab`.
//!
//! Expected bytes are computed here with shifts and masks only (no `to_le_bytes`, no call into the
//! code under test). Case numbers start at `INCRATE_BASE`.

#![allow(dead_code)]

use crate::driver::{hex, Ctx, Report, Rng, RunCfg, Violation, INCRATE_BASE};
use ethercrab_wire::{
    EtherCrabWireRead, EtherCrabWireSized, EtherCrabWireWrite, EtherCrabWireWriteSized, WireError,
};
use std::collections::BTreeMap;
use std::fmt::Debug;
use std::panic::{catch_unwind, AssertUnwindSafe};

struct Chk<'a> {
    case: usize,
    ctx: &'a mut Ctx,
    evals: u64,
    fails: BTreeMap<(String, String), (u64, String)>,
    /// Things worth telling that the property statement does not cover.
    notes: Vec<(String, String)>,
}

impl<'a> Chk<'a> {
    fn ok(&mut self, counter: &str, cond: bool, rule: &str, construct: &str, detail: impl FnOnce() -> String) {
        self.ctx.bump(counter);
        if !cond {
            let e = self
                .fails
                .entry((rule.to_string(), construct.to_string()))
                .or_insert_with(|| (0, detail()));
            e.0 += 1;
        }
    }
}

fn guard<R>(f: impl FnOnce() -> R) -> Result<R, String> {
    catch_unwind(AssertUnwindSafe(f)).map_err(|e| {
        if let Some(s) = e.downcast_ref::<&str>() {
            s.to_string()
        } else if let Some(s) = e.downcast_ref::<String>() {
            s.clone()
        } else {
            "<panic>".into()
        }
    })
}

/// Little-endian image of the low `n` bytes of `bits`.
fn le(bits: u128, n: usize) -> Vec<u8> {
    (0..n).map(|i| ((bits >> (8 * i)) & 0xff) as u8).collect()
}
fn from_le(b: &[u8]) -> u128 {
    b.iter().enumerate().fold(0u128, |a, (i, x)| a | ((*x as u128) << (8 * i)))
}

/// All checks for a fixed-size read+write type with a known image.
fn rw_fixed<T>(c: &mut Chk, rng: &mut Rng, name: &str, v: &T, img: &[u8])
where
    T: EtherCrabWireRead + EtherCrabWireWrite + EtherCrabWireWriteSized + Debug,
{
    let n = img.len();
    write_fixed(c, rng, name, v, img);
    let _ = n;
}

fn write_fixed<T>(c: &mut Chk, rng: &mut Rng, name: &str, v: &T, img: &[u8])
where
    T: EtherCrabWireWrite + Debug,
{
    let n = img.len();
    let cons = format!("incrate-{name}");
    c.evals += 1;
    let r = guard(|| v.packed_len());
    c.ok("incrate.checks.packed_len", r == Ok(n), "packed-len-mismatch", &cons, || format!("{name}: packed_len() = {r:?}, expected {n}"));
    // exact, dirty
    let mut dst = vec![0u8; n];
    rng.fill(&mut dst);
    let r = guard(|| v.pack_to_slice(&mut dst).map(|s| s.to_vec()));
    c.ok("incrate.checks.pack", r == Ok(Ok(img.to_vec())) && dst == img, "pack-mismatch", &cons, || {
        format!("{name}: pack_to_slice({v:?}) -> {r:?}, destination {}, expected {}", hex(&dst), hex(img))
    });
    // longer, dirty
    let mut dst = vec![0u8; n + 1 + rng.below(5) as usize];
    rng.fill(&mut dst);
    let before = dst.clone();
    let r = guard(|| v.pack_to_slice(&mut dst).map(|s| s.to_vec()));
    c.ok("incrate.checks.pack", r == Ok(Ok(img.to_vec())) && &dst[..n] == img, "pack-mismatch", &cons, || {
        format!("{name}: pack_to_slice(longer)({v:?}) -> {r:?}, destination {}, expected {}", hex(&dst), hex(img))
    });
    c.ok("incrate.checks.pack_overrun", dst[n..] == before[n..], "pack-overrun", &cons, || format!("{name}: pack_to_slice wrote past {n} bytes"));
    // unchecked
    let mut dst = vec![0u8; n + rng.below(3) as usize];
    rng.fill(&mut dst);
    let r = guard(|| v.pack_to_slice_unchecked(&mut dst).to_vec());
    c.ok("incrate.checks.pack", r == Ok(img.to_vec()) && &dst[..n] == img, "pack-mismatch", &cons, || {
        format!("{name}: pack_to_slice_unchecked({v:?}) -> {r:?}, destination {}, expected {}", hex(&dst), hex(img))
    });
    // short
    for l in 0..n {
        let mut dst = vec![0u8; l];
        let r = guard(|| v.pack_to_slice(&mut dst).map(|s| s.to_vec()));
        let rule = if r.is_err() { "panic-short-write" } else { "short-write" };
        c.ok("incrate.checks.short_write", r == Ok(Err(WireError::WriteBufferTooShort)), rule, &cons, || {
            format!("{name}: pack_to_slice into {l} of {n} bytes -> {r:?}")
        });
    }
}

fn sized<T: EtherCrabWireSized>(c: &mut Chk, name: &str, n: usize, construct: &str) {
    let r = guard(|| (T::PACKED_LEN, T::buffer().as_ref().len()));
    c.ok("incrate.checks.packed_len", matches!(r, Ok((p, _)) if p == n), "packed-len-mismatch", construct, || {
        format!("{name}: PACKED_LEN = {r:?}, expected {n}")
    });
    // `buffer()` ("a buffer sized to contain the packed representation") is not part of the C19
    // statement (pack/unpack/round trip/short buffers): a wrong size is recorded as an observation.
    c.ctx.bump("incrate.checks.buffer_len");
    if !matches!(r, Ok((_, b)) if b == n) {
        c.ctx.bump("incrate.observed.buffer_len_mismatch");
        c.notes.push((
            "incrate.buffer_len".to_string(),
            format!("{name}: EtherCrabWireSized::buffer() is {} bytes but PACKED_LEN (and the packed image) is {n} bytes", r.clone().map(|x| x.1 as i64).unwrap_or(-1)),
        ));
    }
}

/// Read checks: `img` (plus junk) decodes to a value for which `same` holds, short prefixes fail.
fn read_fixed<T>(c: &mut Chk, rng: &mut Rng, name: &str, img: &[u8], same: impl Fn(&T) -> bool)
where
    T: EtherCrabWireRead + Debug,
{
    let n = img.len();
    let cons = format!("incrate-{name}");
    c.evals += 1;
    let mut buf = img.to_vec();
    if rng.chance(1, 2) {
        let extra = 1 + rng.below(6) as usize;
        for _ in 0..extra {
            buf.push(rng.next_u64() as u8);
        }
    }
    let r = guard(|| T::unpack_from_slice(&buf));
    let rule = if r.is_err() { "panic-unpack" } else { "unpack-mismatch" };
    c.ok("incrate.checks.unpack", matches!(&r, Ok(Ok(v)) if same(v)), rule, &cons, || format!("{name}: unpack_from_slice({}) -> {r:?}", hex(&buf)));
    for l in 0..n {
        let r = guard(|| T::unpack_from_slice(&buf[..l]));
        let rule = if r.is_err() { "panic-short-read" } else { "short-read" };
        c.ok("incrate.checks.short_read", matches!(r, Ok(Err(WireError::ReadBufferTooShort))), rule, &cons, || {
            format!("{name}: unpack_from_slice of {l} of {n} bytes -> {r:?}")
        });
    }
}

macro_rules! prim {
    ($c:expr, $rng:expr, $iters:expr, $t:ty, $u:ty, $n:expr) => {{
        let name = stringify!($t);
        sized::<$t>($c, name, $n, &format!("incrate-{name}"));
        for _ in 0..$iters {
            let bits = $rng.bits($n * 8);
            let v = bits as $u as $t;
            let img = le(bits, $n);
            let r = guard(|| v.pack().as_ref().to_vec());
            $c.ok("incrate.checks.pack", r == Ok(img.clone()), "pack-mismatch", &format!("incrate-{name}"), || {
                format!("{name}: pack({v:?}) = {r:?}, expected {}", hex(&img))
            });
            write_fixed($c, $rng, name, &v, &img);
            read_fixed::<$t>($c, $rng, name, &img, |g| (*g as $u as u128) == bits);
        }
    }};
}

macro_rules! prim_array_read {
    ($c:expr, $rng:expr, $iters:expr, $t:ty, $u:ty, $n:expr, $len:expr) => {{
        let name = concat!("array-", stringify!($t));
        sized::<[$t; $len]>($c, &format!("[{}; {}]", stringify!($t), $len), $n * $len, "incrate-array-multibyte");
        for _ in 0..$iters {
            let mut img = vec![0u8; $n * $len];
            $rng.fill(&mut img);
            read_fixed::<[$t; $len]>($c, $rng, name, &img, |g| {
                g.iter().enumerate().all(|(i, x)| (*x as $u as u128) == from_le(&img[i * $n..(i + 1) * $n]))
            });
        }
    }};
}

pub fn run(cfg: &RunCfg, only: Option<usize>, ctx: &mut Ctx, report: &mut Report) {
    let iters = (cfg.n_values / 2).max(50);
    let mut case = INCRATE_BASE;
    macro_rules! section {
        ($name:expr, $body:expr) => {{
            let this = case;
            case += 1;
            if only.map_or(true, |k| k == this) {
                let mut rng = Rng::new(crate::driver::mix(crate::driver::mix(cfg.seed, cfg.shard), this as u64));
                let mut c = Chk { case: this, ctx: &mut *ctx, evals: 0, fails: BTreeMap::new(), notes: Vec::new() };
                #[allow(clippy::redundant_closure_call)]
                ($body)(&mut c, &mut rng);
                let evals = c.evals;
                let fails = std::mem::take(&mut c.fails);
                let notes = std::mem::take(&mut c.notes);
                drop(c);
                for (k, v) in notes {
                    let e = report.observations.entry(k).or_default();
                    if !e.contains(&v) {
                        e.push(v);
                    }
                }
                ctx.add(&format!("incrate.evaluations.{}", $name), evals);
                ctx.bump("incrate.sections");
                report.evaluations += evals;
                for ((rule, construct), (count, detail)) in fails {
                    report.violations.push(Violation {
                        signature: format!("C19:{rule}:{construct}"),
                        detail,
                        case: this,
                        sub: 0,
                        count,
                    });
                }
            }
        }};
    }

    section!("unsigned", |c: &mut Chk, rng: &mut Rng| {
        prim!(c, rng, iters, u8, u8, 1);
        prim!(c, rng, iters, u16, u16, 2);
        prim!(c, rng, iters, u32, u32, 4);
        prim!(c, rng, iters, u64, u64, 8);
    });
    section!("signed", |c: &mut Chk, rng: &mut Rng| {
        prim!(c, rng, iters, i8, u8, 1);
        prim!(c, rng, iters, i16, u16, 2);
        prim!(c, rng, iters, i32, u32, 4);
        prim!(c, rng, iters, i64, u64, 8);
    });
    section!("float", |c: &mut Chk, rng: &mut Rng| {
        sized::<f32>(c, "f32", 4, "incrate-f32");
        sized::<f64>(c, "f64", 8, "incrate-f64");
        for _ in 0..iters {
            let bits = rng.bits(32);
            let v = f32::from_bits(bits as u32);
            let img = le(bits, 4);
            let r = guard(|| v.pack().to_vec());
            c.ok("incrate.checks.pack", r == Ok(img.clone()), "pack-mismatch", "incrate-f32", || format!("f32 pack {r:?} expected {}", hex(&img)));
            write_fixed(c, rng, "f32", &v, &img);
            read_fixed::<f32>(c, rng, "f32", &img, |g| g.to_bits() as u128 == bits);
            let bits = rng.bits(64);
            let v = f64::from_bits(bits as u64);
            let img = le(bits, 8);
            let r = guard(|| v.pack().to_vec());
            c.ok("incrate.checks.pack", r == Ok(img.clone()), "pack-mismatch", "incrate-f64", || format!("f64 pack {r:?} expected {}", hex(&img)));
            write_fixed(c, rng, "f64", &v, &img);
            read_fixed::<f64>(c, rng, "f64", &img, |g| g.to_bits() as u128 == bits);
        }
    });
    section!("bool_unit", |c: &mut Chk, rng: &mut Rng| {
        sized::<bool>(c, "bool", 1, "incrate-bool");
        sized::<()>(c, "()", 0, "incrate-unit");
        // ETG1000.6 5.2.2: TRUE is 0xff, FALSE is 0x00; any non-zero byte reads as true
        for v in [false, true] {
            let img = [if v { 0xffu8 } else { 0 }];
            let r = guard(|| v.pack().to_vec());
            c.ok("incrate.checks.pack", r == Ok(img.to_vec()), "pack-mismatch", "incrate-bool", || format!("bool pack({v}) = {r:?}"));
            write_fixed(c, rng, "bool", &v, &img);
        }
        for b in 0..=255u8 {
            read_fixed::<bool>(c, rng, "bool", &[b], |g| *g == (b != 0));
        }
        write_fixed(c, rng, "unit", &(), &[]);
        read_fixed::<()>(c, rng, "unit", &[], |_| true);
        let r = guard(|| ().pack().to_vec());
        c.ok("incrate.checks.pack", r == Ok(vec![]), "pack-mismatch", "incrate-unit", || format!("() pack = {r:?}"));
    });
    section!("byte_array", |c: &mut Chk, rng: &mut Rng| {
        macro_rules! ba {
            ($n:expr) => {{
                sized::<[u8; $n]>(c, &format!("[u8; {}]", $n), $n, "incrate-array-u8");
                for _ in 0..(iters / 4).max(10) {
                    let mut v = [0u8; $n];
                    rng.fill(&mut v);
                    let img = v.to_vec();
                    write_fixed(c, rng, "array-u8", &v, &img);
                    read_fixed::<[u8; $n]>(c, rng, "array-u8", &img, |g| g[..] == img[..]);
                    // through a reference (blanket impl for &T) and as a slice
                    write_fixed(c, rng, "ref", &&v, &img);
                    write_fixed(c, rng, "slice-u8", &&v[..], &img);
                }
            }};
        }
        ba!(0);
        ba!(1);
        ba!(2);
        ba!(7);
        ba!(32);
    });
    section!("multibyte_array", |c: &mut Chk, rng: &mut Rng| {
        let it = (iters / 4).max(10);
        prim_array_read!(c, rng, it, u16, u16, 2, 3);
        prim_array_read!(c, rng, it, i16, u16, 2, 1);
        prim_array_read!(c, rng, it, u32, u32, 4, 4);
        prim_array_read!(c, rng, it, i32, u32, 4, 2);
        prim_array_read!(c, rng, it, u64, u64, 8, 2);
        prim_array_read!(c, rng, it, i64, u64, 8, 3);
    });
    section!("tuple", |c: &mut Chk, rng: &mut Rng| {
        for _ in 0..iters {
            let (a, b) = (rng.bits(8), rng.bits(16));
            let v = (a as u8, b as u16);
            let mut img = le(a, 1);
            img.extend(le(b, 2));
            write_fixed(c, rng, "tuple", &v, &img);
            read_fixed::<(u8, u16)>(c, rng, "tuple", &img, |g| *g == v);

            let (a, b, d, e) = (rng.bits(32), rng.bits(8), rng.bits(64), rng.bits(16));
            let v = (a as u32 as i32, b as u8, d as u64, e as u16 as i16);
            let mut img = le(a, 4);
            img.extend(le(b, 1));
            img.extend(le(d, 8));
            img.extend(le(e, 2));
            write_fixed(c, rng, "tuple", &v, &img);
            read_fixed::<(i32, u8, u64, i16)>(c, rng, "tuple", &img, |g| *g == v);

            let v = (a as u32,);
            write_fixed(c, rng, "tuple", &v, &le(a, 4));
            read_fixed::<(u32,)>(c, rng, "tuple", &le(a, 4), |g| *g == v);
        }
    });
    section!("heapless_string", |c: &mut Chk, rng: &mut Rng| {
        for _ in 0..iters {
            c.evals += 1;
            // heapless::Vec<u8, 8>: takes up to 8 items, never fails, never panics
            let mut buf = vec![0u8; rng.below(20) as usize];
            rng.fill(&mut buf);
            let r = guard(|| heapless::Vec::<u8, 8>::unpack_from_slice(&buf));
            let want = &buf[..buf.len().min(8)];
            c.ok("incrate.checks.unpack", matches!(&r, Ok(Ok(v)) if &v[..] == want), if r.is_err() { "panic-unpack" } else { "unpack-mismatch" }, "incrate-heapless-vec", || {
                format!("heapless::Vec<u8, 8>::unpack_from_slice({}) -> {r:?}", hex(&buf))
            });
            let r = guard(|| heapless::Vec::<u16, 4>::unpack_from_slice(&buf));
            let want: Vec<u16> = buf.chunks_exact(2).take(4).map(|p| from_le(p) as u16).collect();
            c.ok("incrate.checks.unpack", matches!(&r, Ok(Ok(v)) if v[..] == want[..]), if r.is_err() { "panic-unpack" } else { "unpack-mismatch" }, "incrate-heapless-vec", || {
                format!("heapless::Vec<u16, 4>::unpack_from_slice({}) -> {r:?}, expected {want:?}", hex(&buf))
            });
            // strings: ASCII text of random length, or noise
            let len = rng.below(14) as usize;
            let text: Vec<u8> = if rng.chance(3, 4) {
                (0..len).map(|_| 0x20 + rng.below(0x5f) as u8).collect()
            } else {
                let mut b = vec![0u8; len];
                rng.fill(&mut b);
                b
            };
            let valid = std::str::from_utf8(&text).ok();
            let r = guard(|| heapless::String::<8>::unpack_from_slice(&text));
            let good = match (&r, valid) {
                (Ok(Ok(s)), Some(t)) => t.len() <= 8 && s.as_str() == t,
                (Ok(Err(WireError::ArrayLength)), Some(t)) => t.len() > 8,
                (Ok(Err(WireError::InvalidUtf8)), None) => true,
                _ => false,
            };
            c.ok("incrate.checks.unpack", good, if r.is_err() { "panic-unpack" } else { "unpack-mismatch" }, "incrate-heapless-string", || {
                format!("heapless::String<8>::unpack_from_slice({}) -> {r:?}", hex(&text))
            });
            let r = guard(|| String::unpack_from_slice(&text));
            let good = match (&r, valid) {
                (Ok(Ok(s)), Some(t)) => s == t,
                (Ok(Err(WireError::InvalidUtf8)), None) => true,
                _ => false,
            };
            c.ok("incrate.checks.unpack", good, if r.is_err() { "panic-unpack" } else { "unpack-mismatch" }, "incrate-std-string", || {
                format!("String::unpack_from_slice({}) -> {r:?}", hex(&text))
            });
        }
    });

    #[cfg(feature = "with_ethercrab")]
    {
        use ethercrab::error::CoeAbortCode;
        use ethercrab::{AlStatusCode, Command, Reads, SubDeviceIdentity, SubDeviceState, Writes};

        section!("ethercrab_subdevice_state", |c: &mut Chk, rng: &mut Rng| {
            sized::<SubDeviceState>(c, "SubDeviceState", 1, "incrate-SubDeviceState");
            for b in 0..=255u8 {
                let want = match b {
                    0x00 => SubDeviceState::None,
                    0x01 => SubDeviceState::Init,
                    0x02 => SubDeviceState::PreOp,
                    0x03 => SubDeviceState::Bootstrap,
                    0x04 => SubDeviceState::SafeOp,
                    0x08 => SubDeviceState::Op,
                    x => SubDeviceState::Other(x),
                };
                read_fixed::<SubDeviceState>(c, rng, "SubDeviceState", &[b], |g| *g == want);
                let r = guard(|| want.pack().to_vec());
                c.ok("incrate.checks.pack", r == Ok(vec![b]), "pack-mismatch", "incrate-SubDeviceState", || format!("SubDeviceState pack({want:?}) = {r:?}"));
                write_fixed(c, rng, "SubDeviceState", &want, &[b]);
            }
        });
        section!("ethercrab_al_status_code", |c: &mut Chk, rng: &mut Rng| {
            sized::<AlStatusCode>(c, "AlStatusCode", 2, "incrate-AlStatusCode");
            // ETG1000.6 Table 11 spot values + every 16 bit value decodes (catch-all) without panic
            let spots: &[(u16, AlStatusCode)] = &[
                (0x0000, AlStatusCode::NoError),
                (0x0001, AlStatusCode::UnspecifiedError),
                (0x0011, AlStatusCode::InvalidRequestedStateChange),
                (0x001B, AlStatusCode::SyncManagerWatchdog),
                (0x001E, AlStatusCode::InvalidInputConfiguration),
                (0x0030, AlStatusCode::InvalidDcSyncConfiguration),
            ];
            for (raw, want) in spots {
                read_fixed::<AlStatusCode>(c, rng, "AlStatusCode", &le(*raw as u128, 2), |g| g == want);
            }
            // shard 0 sweeps all 65536 values, the others sample
            let sweep: Vec<u32> = if cfg.shard == 0 {
                (0..=0xffffu32).collect()
            } else {
                (0..iters * 4).map(|_| rng.bits(16) as u32).collect()
            };
            for raw in sweep {
                c.evals += 1;
                let img = le(raw as u128, 2);
                let r = guard(|| AlStatusCode::unpack_from_slice(&img));
                let good = match &r {
                    Ok(Ok(AlStatusCode::Unknown(x))) => *x as u32 == raw,
                    Ok(Ok(_)) => true,
                    _ => false,
                };
                c.ok("incrate.checks.unpack", good, if r.is_err() { "panic-unpack" } else { "unpack-mismatch" }, "incrate-AlStatusCode", || format!("AlStatusCode::unpack_from_slice({}) -> {r:?}", hex(&img)));
            }
        });
        section!("ethercrab_coe_abort_code", |c: &mut Chk, rng: &mut Rng| {
            sized::<CoeAbortCode>(c, "CoeAbortCode", 4, "incrate-CoeAbortCode");
            let spots: &[(u32, CoeAbortCode)] = &[
                (0x0503_0000, CoeAbortCode::ToggleBit),
                (0x0504_0000, CoeAbortCode::SdoTimeout),
                (0x0601_0002, CoeAbortCode::ReadOnlyWrite),
                (0x0602_0000, CoeAbortCode::NotFound),
                (0x0609_0011, CoeAbortCode::SubIndexNotFound),
                (0x0800_0000, CoeAbortCode::General),
            ];
            for (raw, want) in spots {
                read_fixed::<CoeAbortCode>(c, rng, "CoeAbortCode", &le(*raw as u128, 4), |g| g == want);
            }
            for _ in 0..iters * 4 {
                let raw = rng.bits(32);
                read_fixed::<CoeAbortCode>(c, rng, "CoeAbortCode", &le(raw, 4), |g| match g {
                    CoeAbortCode::Unknown(x) => *x as u128 == raw,
                    _ => true,
                });
            }
        });
        section!("ethercrab_identity_command", |c: &mut Chk, rng: &mut Rng| {
            sized::<SubDeviceIdentity>(c, "SubDeviceIdentity", 16, "incrate-SubDeviceIdentity");
            sized::<Command>(c, "Command", 4, "incrate-Command");
            for _ in 0..iters {
                let mut img = vec![0u8; 16];
                rng.fill(&mut img);
                read_fixed::<SubDeviceIdentity>(c, rng, "SubDeviceIdentity", &img, |g| {
                    g.vendor_id as u128 == from_le(&img[0..4])
                        && g.product_id as u128 == from_le(&img[4..8])
                        && g.revision as u128 == from_le(&img[8..12])
                        && g.serial as u128 == from_le(&img[12..16])
                });
                // datagram address field: ADP (16 bit) then ADO (16 bit), or one 32 bit logical address
                let (address, register, logical) = (rng.bits(16) as u16, rng.bits(16) as u16, rng.bits(32) as u32);
                let mut ar = le(address as u128, 2);
                ar.extend(le(register as u128, 2));
                let lg = le(logical as u128, 4);
                let cmds: Vec<(Command, &Vec<u8>)> = vec![
                    (Command::Read(Reads::Aprd { address, register }), &ar),
                    (Command::Read(Reads::Fprd { address, register }), &ar),
                    (Command::Read(Reads::Brd { address, register }), &ar),
                    (Command::Read(Reads::Frmw { address, register }), &ar),
                    (Command::Read(Reads::Lrd { address: logical }), &lg),
                    (Command::Write(Writes::Apwr { address, register }), &ar),
                    (Command::Write(Writes::Fpwr { address, register }), &ar),
                    (Command::Write(Writes::Bwr { address, register }), &ar),
                    (Command::Write(Writes::Lwr { address: logical }), &lg),
                    (Command::Write(Writes::Lrw { address: logical }), &lg),
                ];
                for (cmd, want) in cmds {
                    c.evals += 1;
                    let r = guard(|| cmd.pack().to_vec());
                    c.ok("incrate.checks.pack", r.as_ref() == Ok(want), if r.is_err() { "panic-pack" } else { "pack-mismatch" }, "incrate-Command", || format!("Command pack({cmd:?}) = {r:?}, expected {}", hex(want)));
                }
            }
        });
    }
    let _ = case;
}
