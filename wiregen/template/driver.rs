//! Test driver for property C19 (static file, copied by gen.py into every generated crate).
//!
//! For every generated definition it produces random values and random buffers *from the layout
//! description*, runs them through the derived `ethercrab-wire` impls (each call inside
//! `catch_unwind`) and compares with `reference.rs`.

#![allow(dead_code)]

use crate::reference::*;
use ethercrab_wire::{
    EtherCrabWireRead, EtherCrabWireSized, EtherCrabWireWrite, EtherCrabWireWriteSized, WireError,
};
use std::collections::{BTreeMap, BTreeSet};
use std::fmt::Debug;
use std::panic::{catch_unwind, AssertUnwindSafe};

// ------------------------------------------------------------------------------------------------
// PRNG (xoshiro256**, seeded through splitmix64)
// ------------------------------------------------------------------------------------------------

pub struct Rng([u64; 4]);

pub fn splitmix(x: &mut u64) -> u64 {
    *x = x.wrapping_add(0x9E37_79B9_7F4A_7C15);
    let mut z = *x;
    z = (z ^ (z >> 30)).wrapping_mul(0xBF58_476D_1CE4_E5B9);
    z = (z ^ (z >> 27)).wrapping_mul(0x94D0_49BB_1331_11EB);
    z ^ (z >> 31)
}

pub fn mix(a: u64, b: u64) -> u64 {
    let mut x = a ^ b.rotate_left(29) ^ 0x5851_F42D_4C95_7F2D;
    let r = splitmix(&mut x);
    r ^ splitmix(&mut x)
}

impl Rng {
    pub fn new(seed: u64) -> Self {
        let mut s = seed;
        Rng([
            splitmix(&mut s),
            splitmix(&mut s),
            splitmix(&mut s),
            splitmix(&mut s),
        ])
    }
    pub fn next_u64(&mut self) -> u64 {
        let s = &mut self.0;
        let result = s[1].wrapping_mul(5).rotate_left(7).wrapping_mul(9);
        let t = s[1] << 17;
        s[2] ^= s[0];
        s[3] ^= s[1];
        s[1] ^= s[2];
        s[0] ^= s[3];
        s[2] ^= t;
        s[3] = s[3].rotate_left(45);
        result
    }
    pub fn below(&mut self, n: u64) -> u64 {
        if n == 0 {
            0
        } else {
            self.next_u64() % n
        }
    }
    pub fn chance(&mut self, num: u64, den: u64) -> bool {
        self.below(den) < num
    }
    /// `w <= 128` uniformly random bits.
    pub fn bits(&mut self, w: usize) -> u128 {
        let v = ((self.next_u64() as u128) << 64) | self.next_u64() as u128;
        if w >= 128 {
            v
        } else {
            v & ((1u128 << w) - 1)
        }
    }
    pub fn fill(&mut self, buf: &mut [u8]) {
        for b in buf.iter_mut() {
            *b = self.next_u64() as u8;
        }
    }
}

// ------------------------------------------------------------------------------------------------
// Typed value <-> dynamic value
// ------------------------------------------------------------------------------------------------

pub trait Conv: Sized {
    fn to_val(&self) -> Val;
    fn from_val(v: &Val) -> Self;
}

macro_rules! conv_int {
    ($($t:ty),*) => {$(
        impl Conv for $t {
            fn to_val(&self) -> Val { Val::Int(*self as i128) }
            fn from_val(v: &Val) -> Self {
                match v { Val::Int(x) => *x as $t, _ => panic!("driver: int expected") }
            }
        }
    )*};
}
conv_int!(u8, u16, u32, u64, i8, i16, i32, i64);

impl Conv for bool {
    fn to_val(&self) -> Val {
        Val::Int(*self as i128)
    }
    fn from_val(v: &Val) -> Self {
        match v {
            Val::Int(x) => *x != 0,
            _ => panic!("driver: bool expected"),
        }
    }
}
impl Conv for f32 {
    fn to_val(&self) -> Val {
        Val::Int(self.to_bits() as i128)
    }
    fn from_val(v: &Val) -> Self {
        match v {
            Val::Int(x) => f32::from_bits(*x as u32),
            _ => panic!("driver: f32 expected"),
        }
    }
}
impl Conv for f64 {
    fn to_val(&self) -> Val {
        Val::Int(self.to_bits() as i128)
    }
    fn from_val(v: &Val) -> Self {
        match v {
            Val::Int(x) => f64::from_bits(*x as u64),
            _ => panic!("driver: f64 expected"),
        }
    }
}
impl<T: Conv, const N: usize> Conv for [T; N] {
    fn to_val(&self) -> Val {
        Val::Seq(self.iter().map(|x| x.to_val()).collect())
    }
    fn from_val(v: &Val) -> Self {
        match v {
            Val::Seq(xs) => core::array::from_fn(|i| T::from_val(&xs[i])),
            _ => panic!("driver: array expected"),
        }
    }
}
macro_rules! conv_tuple {
    ($(($($n:tt $t:ident),+))+) => {$(
        impl<$($t: Conv),+> Conv for ($($t,)+) {
            fn to_val(&self) -> Val { Val::Seq(vec![$(self.$n.to_val()),+]) }
            fn from_val(v: &Val) -> Self {
                match v { Val::Seq(xs) => ($($t::from_val(&xs[$n]),)+), _ => panic!("driver: tuple expected") }
            }
        }
    )+};
}
conv_tuple! {
    (0 A)
    (0 A, 1 B)
    (0 A, 1 B, 2 C)
    (0 A, 1 B, 2 C, 3 D)
}

// ------------------------------------------------------------------------------------------------
// Type-erased access to the derived impls
// ------------------------------------------------------------------------------------------------

#[derive(Clone, Copy)]
pub struct Ops {
    pub readable: bool,
    pub writable: bool,
    pub pack: fn(&Val) -> Vec<u8>,
    /// Returns a copy of the returned slice.
    pub pack_to_slice: fn(&Val, &mut [u8]) -> Result<Vec<u8>, WireError>,
    pub pack_unchecked: fn(&Val, &mut [u8]) -> Vec<u8>,
    pub packed_len: fn(&Val) -> usize,
    pub const_len: fn() -> usize,
    pub buffer_len: fn() -> usize,
    pub unpack: fn(&[u8]) -> Result<Val, WireError>,
    pub debug: fn(&Val) -> String,
}

fn no_pack(_: &Val) -> Vec<u8> {
    unreachable!()
}
fn no_pts(_: &Val, _: &mut [u8]) -> Result<Vec<u8>, WireError> {
    unreachable!()
}
fn no_pu(_: &Val, _: &mut [u8]) -> Vec<u8> {
    unreachable!()
}
fn no_plen(_: &Val) -> usize {
    unreachable!()
}
fn no_unpack(_: &[u8]) -> Result<Val, WireError> {
    unreachable!()
}

fn pack_impl<T: Conv + EtherCrabWireWriteSized>(v: &Val) -> Vec<u8> {
    T::from_val(v).pack().as_ref().to_vec()
}
fn pts_impl<T: Conv + EtherCrabWireWrite>(v: &Val, dst: &mut [u8]) -> Result<Vec<u8>, WireError> {
    T::from_val(v).pack_to_slice(dst).map(|s| s.to_vec())
}
fn pu_impl<T: Conv + EtherCrabWireWrite>(v: &Val, dst: &mut [u8]) -> Vec<u8> {
    T::from_val(v).pack_to_slice_unchecked(dst).to_vec()
}
fn plen_impl<T: Conv + EtherCrabWireWrite>(v: &Val) -> usize {
    T::from_val(v).packed_len()
}
fn clen_impl<T: EtherCrabWireSized>() -> usize {
    T::PACKED_LEN
}
fn blen_impl<T: EtherCrabWireSized>() -> usize {
    T::buffer().as_ref().len()
}
fn unpack_impl<T: Conv + EtherCrabWireRead>(b: &[u8]) -> Result<Val, WireError> {
    T::unpack_from_slice(b).map(|t| t.to_val())
}
fn debug_impl<T: Conv + Debug>(v: &Val) -> String {
    format!("{:?}", T::from_val(v))
}

pub fn ops_rw<T>() -> Ops
where
    T: Conv + Debug + EtherCrabWireRead + EtherCrabWireWrite + EtherCrabWireWriteSized,
{
    Ops {
        readable: true,
        writable: true,
        pack: pack_impl::<T>,
        pack_to_slice: pts_impl::<T>,
        pack_unchecked: pu_impl::<T>,
        packed_len: plen_impl::<T>,
        const_len: clen_impl::<T>,
        buffer_len: blen_impl::<T>,
        unpack: unpack_impl::<T>,
        debug: debug_impl::<T>,
    }
}
pub fn ops_r<T>() -> Ops
where
    T: Conv + Debug + EtherCrabWireRead + EtherCrabWireSized,
{
    Ops {
        readable: true,
        writable: false,
        pack: no_pack,
        pack_to_slice: no_pts,
        pack_unchecked: no_pu,
        packed_len: no_plen,
        const_len: clen_impl::<T>,
        buffer_len: blen_impl::<T>,
        unpack: unpack_impl::<T>,
        debug: debug_impl::<T>,
    }
}
pub fn ops_w<T>() -> Ops
where
    T: Conv + Debug + EtherCrabWireWrite + EtherCrabWireWriteSized,
{
    Ops {
        readable: false,
        writable: true,
        pack: pack_impl::<T>,
        pack_to_slice: pts_impl::<T>,
        pack_unchecked: pu_impl::<T>,
        packed_len: plen_impl::<T>,
        const_len: clen_impl::<T>,
        buffer_len: blen_impl::<T>,
        unpack: no_unpack,
        debug: debug_impl::<T>,
    }
}

/// One generated definition.
pub struct Def {
    /// Definition number within (seed, shard); this is the replay `case`.
    pub index: usize,
    pub top: Top,
    pub ops: Ops,
    /// Definitions this one refers to (transitively closed by the generator), lower indices.
    pub deps: &'static [usize],
    /// Construct name used when a failure cannot be pinned to a field.
    pub risk: &'static str,
}

// ------------------------------------------------------------------------------------------------
// Result bookkeeping
// ------------------------------------------------------------------------------------------------

#[derive(Default, Clone)]
pub struct RuleAcc {
    pub count: u64,
    pub first_sub: u64,
    pub first_detail: String,
    /// Top-level fields that differed in at least one failing evaluation.
    pub fields: BTreeSet<usize>,
    /// Enum constructs (for enum definitions).
    pub enum_tags: BTreeSet<String>,
}

#[derive(Default, Clone)]
pub struct DefResult {
    pub rules: BTreeMap<&'static str, RuleAcc>,
    /// rule -> construct, filled by `finalize`.
    pub labels: BTreeMap<&'static str, String>,
    pub evaluations: u64,
    pub sample: Option<(String, String)>,
}

pub struct Ctx {
    pub counters: BTreeMap<String, u64>,
    pub stats: DecodeStats,
}

impl Ctx {
    pub fn new() -> Self {
        Ctx {
            counters: BTreeMap::new(),
            stats: DecodeStats::default(),
        }
    }
    pub fn bump(&mut self, k: &str) {
        self.add(k, 1);
    }
    pub fn add(&mut self, k: &str, n: u64) {
        if let Some(v) = self.counters.get_mut(k) {
            *v += n;
        } else {
            self.counters.insert(k.to_string(), n);
        }
    }
}

impl DefResult {
    fn fail(
        &mut self,
        rule: &'static str,
        sub: u64,
        fields: &[usize],
        enum_tag: Option<String>,
        detail: impl FnOnce() -> String,
    ) {
        let acc = self.rules.entry(rule).or_default();
        if acc.count == 0 {
            acc.first_sub = sub;
            acc.first_detail = detail();
        }
        acc.count += 1;
        acc.fields.extend(fields.iter().copied());
        if let Some(t) = enum_tag {
            acc.enum_tags.insert(t);
        }
    }
}

pub fn hex(b: &[u8]) -> String {
    let mut s = String::with_capacity(b.len() * 2);
    for x in b {
        s.push_str(&format!("{:02x}", x));
    }
    s
}

fn panic_msg(e: Box<dyn std::any::Any + Send>) -> String {
    if let Some(s) = e.downcast_ref::<&str>() {
        s.to_string()
    } else if let Some(s) = e.downcast_ref::<String>() {
        s.clone()
    } else {
        "<non-string panic payload>".to_string()
    }
}

fn guard<R>(f: impl FnOnce() -> R) -> Result<R, String> {
    catch_unwind(AssertUnwindSafe(f)).map_err(panic_msg)
}

// ------------------------------------------------------------------------------------------------
// Enum classification for signatures
// ------------------------------------------------------------------------------------------------

pub fn enum_construct(e: &EnumLayout, raw: i128) -> String {
    if !e.implicit_class.is_empty() {
        return e.implicit_class.to_string();
    }
    let mut base = "";
    for v in e.variants {
        if let Some(p) = v.values.iter().position(|x| *x == raw) {
            base = if p == 0 { "enum-explicit" } else { "enum-alternative" };
            break;
        }
    }
    if base.is_empty() {
        base = if e.variants.iter().any(|v| v.catch_all) {
            "enum-catch-all"
        } else if e.variants.iter().any(|v| v.default) {
            "enum-default"
        } else {
            "enum-undefined-value"
        };
    }
    if raw < 0 {
        format!("{}-negative", base)
    } else {
        base.to_string()
    }
}

fn enum_raw_of(e: &EnumLayout, v: &Val) -> i128 {
    match v {
        Val::Enum(i, p) => {
            let var = &e.variants[*i];
            if var.catch_all {
                *p
            } else {
                var.values[0]
            }
        }
        _ => 0,
    }
}

fn enum_raw_in_buf(e: &EnumLayout, buf: &[u8]) -> i128 {
    let w = e.repr_bits as usize;
    let raw = get_bits(buf, 0, w);
    if e.signed && (raw >> (w - 1)) & 1 == 1 {
        raw as i128 - (1i128 << w)
    } else {
        raw as i128
    }
}

// ------------------------------------------------------------------------------------------------
// Value and buffer generation (from the layout only)
// ------------------------------------------------------------------------------------------------

fn gen_uint(rng: &mut Rng, w: usize) -> i128 {
    let max: u128 = if w >= 128 { u128::MAX } else { (1u128 << w) - 1 };
    (match rng.below(12) {
        0 => 0,
        1 => max,
        2 => 1 & max,
        3 => max - (1 & max),
        4 => 0xAAAA_AAAA_AAAA_AAAA_AAAA_AAAA_AAAA_AAAAu128 & max,
        5 => 0x5555_5555_5555_5555_5555_5555_5555_5555u128 & max,
        6 => {
            if w > 0 {
                1u128 << rng.below(w as u64)
            } else {
                0
            }
        }
        _ => rng.bits(w),
    }) as i128
}

fn gen_sint(rng: &mut Rng, w: usize) -> i128 {
    let min = -(1i128 << (w - 1));
    let max = (1i128 << (w - 1)) - 1;
    match rng.below(12) {
        0 => 0,
        1 => -1,
        2 => min,
        3 => max,
        4 => 1.min(max),
        5 => min + 1.min(max),
        _ => {
            let raw = rng.bits(w);
            if (raw >> (w - 1)) & 1 == 1 {
                raw as i128 - (1i128 << w)
            } else {
                raw as i128
            }
        }
    }
}

fn gen_enum(rng: &mut Rng, e: &EnumLayout, width: usize) -> Val {
    let w = width.min(e.repr_bits as usize);
    let catch = e.variants.iter().position(|v| v.catch_all);
    if let Some(ci) = catch {
        if rng.chance(1, 4) || e.variants.len() == 1 {
            // canonical catch-all value: a raw value that is not in the table
            for _ in 0..64 {
                let raw = if e.signed && w == e.repr_bits as usize {
                    gen_sint(rng, w)
                } else {
                    gen_uint(rng, w)
                };
                if !e.variants.iter().any(|v| v.values.contains(&raw)) {
                    return Val::Enum(ci, raw);
                }
            }
        }
    }
    let unit: Vec<usize> = (0..e.variants.len())
        .filter(|i| !e.variants[*i].catch_all)
        .collect();
    Val::Enum(unit[rng.below(unit.len() as u64) as usize], 0)
}

pub fn gen_ty(rng: &mut Rng, ty: &Ty, width: usize) -> Val {
    match ty {
        Ty::UInt { .. } | Ty::Float { .. } => Val::Int(gen_uint(rng, width)),
        Ty::SInt { .. } => Val::Int(gen_sint(rng, width)),
        Ty::Bool => Val::Int(rng.below(2) as i128),
        Ty::Enum(e) => gen_enum(rng, e, width),
        Ty::Struct(s) => gen_struct(rng, s),
        Ty::Array { elem, n, stride_bits } => {
            Val::Seq((0..*n).map(|_| gen_ty(rng, elem, *stride_bits)).collect())
        }
        Ty::Tuple(ms) => Val::Seq(ms.iter().map(|m| gen_ty(rng, &m.ty, m.bit_width)).collect()),
    }
}

fn container_bits(ty: &Ty, declared: usize) -> usize {
    match ty {
        Ty::UInt { container_bits } | Ty::SInt { container_bits } => *container_bits as usize,
        Ty::Float { bits } => *bits as usize,
        Ty::Bool => 1,
        _ => declared,
    }
}

fn gen_struct(rng: &mut Rng, s: &StructLayout) -> Val {
    Val::Seq(
        s.fields
            .iter()
            .map(|f| {
                if f.skip {
                    // not on the wire: any value of the Rust type
                    gen_ty(rng, &f.ty, container_bits(&f.ty, f.bit_width))
                } else {
                    gen_ty(rng, &f.ty, f.bit_width)
                }
            })
            .collect(),
    )
}

pub fn gen_value(rng: &mut Rng, top: Top) -> Val {
    match top {
        Top::Struct(s) => gen_struct(rng, s),
        Top::Enum(e) => gen_enum(rng, e, e.repr_bits as usize),
    }
}

/// Leaf regions (bit offset, width) of a layout, for field-wise buffer mutation.
fn leaf_regions(top: Top) -> Vec<(usize, usize)> {
    fn ty_regions(ty: &Ty, width: usize, at: usize, out: &mut Vec<(usize, usize)>) {
        match ty {
            Ty::Struct(s) => {
                for f in s.fields {
                    if !f.skip {
                        ty_regions(&f.ty, f.bit_width, at + f.bit_offset, out);
                    }
                }
            }
            Ty::Array { elem, n, stride_bits } => {
                for i in 0..*n {
                    ty_regions(elem, *stride_bits, at + i * stride_bits, out);
                }
            }
            Ty::Tuple(ms) => {
                for m in *ms {
                    ty_regions(&m.ty, m.bit_width, at + m.bit_offset, out);
                }
            }
            _ => out.push((at, width)),
        }
    }
    let mut out = Vec::new();
    match top {
        Top::Struct(s) => {
            for f in s.fields {
                if !f.skip {
                    ty_regions(&f.ty, f.bit_width, f.bit_offset, &mut out);
                }
            }
        }
        Top::Enum(e) => out.push((0, e.repr_bits as usize)),
    }
    out
}

/// Every place (bit offset, width) where an enum is decoded.
fn enum_sites(top: Top) -> Vec<(usize, usize, &'static EnumLayout)> {
    fn ty_sites(ty: &Ty, width: usize, at: usize, out: &mut Vec<(usize, usize, &'static EnumLayout)>) {
        match ty {
            Ty::Enum(e) => out.push((at, width.min(e.repr_bits as usize), *e)),
            Ty::Struct(s) => {
                for f in s.fields {
                    if !f.skip {
                        ty_sites(&f.ty, f.bit_width, at + f.bit_offset, out);
                    }
                }
            }
            Ty::Array { elem, n, stride_bits } => {
                for i in 0..*n {
                    ty_sites(elem, *stride_bits, at + i * stride_bits, out);
                }
            }
            _ => {}
        }
    }
    let mut out = Vec::new();
    match top {
        Top::Struct(s) => {
            for f in s.fields {
                if !f.skip {
                    ty_sites(&f.ty, f.bit_width, f.bit_offset, &mut out);
                }
            }
        }
        Top::Enum(e) => out.push((0, e.repr_bits as usize, e)),
    }
    out
}

/// A buffer of at least `packed_len` bytes: a mix of (valid image + random undeclared bits),
/// (the same with some fields overwritten by random bits) and pure noise; half of them longer
/// than necessary.
pub fn gen_buffer(rng: &mut Rng, top: Top, regions: &[(usize, usize)], sites: &[(usize, usize, &'static EnumLayout)], mask: &[u8]) -> Vec<u8> {
    let plen = top.packed_len();
    let extra = if rng.chance(1, 2) { 0 } else { 1 + rng.below(16) as usize };
    let mut buf = vec![0u8; plen + extra];
    let mode = rng.below(10);
    if mode < 3 {
        rng.fill(&mut buf);
        return buf;
    }
    let v = gen_value(rng, top);
    let img = ref_pack(top, &v);
    let mut noise = vec![0u8; plen + extra];
    rng.fill(&mut noise);
    for i in 0..plen {
        // declared bits from the image, undeclared (skips, padding) from noise
        buf[i] = (img[i] & mask[i]) | (noise[i] & !mask[i]);
    }
    buf[plen..].copy_from_slice(&noise[plen..]);
    // put some value of the table (primary or alternative) into one enum site
    if !sites.is_empty() && rng.chance(1, 3) {
        let (off, w, e) = sites[rng.below(sites.len() as u64) as usize];
        let all: Vec<i128> = e.variants.iter().flat_map(|v| v.values.iter().copied()).collect();
        if !all.is_empty() {
            let alts: Vec<i128> = e.variants.iter().flat_map(|v| v.values.iter().skip(1).copied()).collect();
            let pool = if !alts.is_empty() && rng.chance(1, 2) { &alts } else { &all };
            put_bits(&mut buf, off, w, pool[rng.below(pool.len() as u64) as usize] as u128);
        }
    }
    if mode < 7 && !regions.is_empty() {
        let k = 1 + rng.below(3);
        for _ in 0..k {
            let (off, w) = regions[rng.below(regions.len() as u64) as usize];
            let bits = rng.bits(w.min(128));
            put_bits(&mut buf, off, w.min(128), bits);
        }
    }
    buf
}

// ------------------------------------------------------------------------------------------------
// Checks
// ------------------------------------------------------------------------------------------------

fn field_region_differs(a: &[u8], b: &[u8], off: usize, w: usize) -> bool {
    (0..w).any(|i| get_bit(a, off + i) != get_bit(b, off + i))
}

/// Classify a packed-bytes mismatch: which top-level fields differ, or which kind of undeclared
/// bit was set.
fn diff_pack(top: Top, got: &[u8], exp: &[u8]) -> (&'static str, Vec<usize>, Option<String>) {
    match top {
        Top::Enum(_) => ("pack-mismatch", vec![], None),
        Top::Struct(s) => {
            let n = got.len().min(exp.len());
            let mut fields = Vec::new();
            for (i, f) in s.fields.iter().enumerate() {
                if f.skip || f.bit_offset + f.bit_width > n * 8 {
                    continue;
                }
                if field_region_differs(got, exp, f.bit_offset, f.bit_width) {
                    fields.push(i);
                }
            }
            if !fields.is_empty() || got.len() != exp.len() {
                return ("pack-mismatch", fields, None);
            }
            // only bits outside every field differ
            let first = (0..n * 8).find(|k| get_bit(got, *k) != get_bit(exp, *k)).unwrap_or(0);
            let mut tag = "struct-tail-padding".to_string();
            for f in s.fields {
                if f.skip {
                    continue;
                }
                if first + f.pre_skip_bits >= f.bit_offset && first < f.bit_offset {
                    tag = "struct-pre-skip".to_string();
                }
                let end = f.bit_offset + f.bit_width;
                if first >= end && first < end + f.post_skip_bits {
                    tag = "struct-post-skip".to_string();
                }
            }
            ("pack-undeclared-bits", vec![], Some(tag))
        }
    }
}

fn diff_vals(top: Top, got: &Val, exp: &Val) -> Vec<usize> {
    match (top, got, exp) {
        (Top::Struct(_), Val::Seq(g), Val::Seq(e)) => (0..g.len().max(e.len()))
            .filter(|i| g.get(*i) != e.get(*i))
            .collect(),
        _ => vec![],
    }
}

fn field_of_path(top: Top, path: &str) -> Vec<usize> {
    if let Top::Struct(s) = top {
        if let Some(seg) = path.split('.').nth(1) {
            let name = seg.split('[').next().unwrap_or(seg);
            if let Some(i) = s.fields.iter().position(|f| f.name == name) {
                return vec![i];
            }
        }
    }
    vec![]
}

pub struct RunCfg {
    pub seed: u64,
    pub shard: u64,
    pub n_values: u64,
    pub n_buffers: u64,
}

pub fn run_def(def: &Def, cfg: &RunCfg, ctx: &mut Ctx) -> DefResult {
    let top = def.top;
    let ops = def.ops;
    let plen = top.packed_len();
    let mut res = DefResult::default();
    let mut rng = Rng::new(mix(mix(cfg.seed, cfg.shard), def.index as u64));
    let mask = declared_mask(top);
    let regions = leaf_regions(top);
    let sites = enum_sites(top);
    let enum_l = match top {
        Top::Enum(e) => Some(e),
        _ => None,
    };
    let mut sub: u64 = 0;
    // read-only / write-only definitions spend the whole budget on the half they have
    let n_values = if ops.readable { cfg.n_values } else { cfg.n_values + cfg.n_buffers };
    let n_buffers = if ops.writable { cfg.n_buffers } else { cfg.n_values + cfg.n_buffers };

    // ---- sizes -------------------------------------------------------------------------------
    ctx.bump("checks.packed_len_const");
    match guard(|| ((ops.const_len)(), (ops.buffer_len)())) {
        Err(m) => res.fail("panic-sized", sub, &[], None, || format!("PACKED_LEN/buffer() panicked: {m}")),
        Ok((c, b)) => {
            if c != plen || b != plen {
                res.fail("packed-len-mismatch", sub, &[], None, || {
                    format!("{}: layout is {} bits = {} bytes, PACKED_LEN = {}, buffer().len() = {}", top.name(), top.width_bits(), plen, c, b)
                });
            }
        }
    }
    sub += 1;

    // ---- values: pack (a), round trip (c), short destination (d) -----------------------------
    if ops.writable {
        for _ in 0..n_values {
            sub += 1;
            res.evaluations += 1;
            let v = gen_value(&mut rng, top);
            let exp = ref_pack(top, &v);
            let etag = enum_l.map(|e| enum_construct(e, enum_raw_of(e, &v)));
            let dbg = || guard(|| (ops.debug)(&v)).unwrap_or_else(|m| format!("<Debug panicked: {m}>"));

            // packed_len()
            ctx.bump("checks.packed_len_method");
            match guard(|| (ops.packed_len)(&v)) {
                Err(m) => res.fail("panic-pack", sub, &[], etag.clone(), || format!("packed_len() panicked: {m}; value {}", dbg())),
                Ok(l) if l != plen => res.fail("packed-len-mismatch", sub, &[], etag.clone(), || format!("packed_len() = {l}, layout {plen}; value {}", dbg())),
                Ok(_) => {}
            }

            // pack()
            ctx.bump("checks.pack");
            let mut packed: Option<Vec<u8>> = None;
            match guard(|| (ops.pack)(&v)) {
                Err(m) => res.fail("panic-pack", sub, &[], etag.clone(), || format!("pack() panicked: {m}; value {}", dbg())),
                Ok(got) => {
                    if got != exp {
                        let (rule, fields, tag) = diff_pack(top, &got, &exp);
                        res.fail(rule, sub, &fields, tag.or(etag.clone()), || {
                            format!("pack() of {} = {} but layout gives {} (differing top-level fields {:?})", dbg(), hex(&got), hex(&exp), fields)
                        });
                    }
                    if res.sample.is_none() {
                        res.sample = Some((dbg(), hex(&got)));
                    }
                    packed = Some(got);
                }
            }

            // pack_to_slice, exact destination pre-filled with junk
            ctx.bump("checks.pack_to_slice_exact");
            let mut dst = vec![0u8; plen];
            rng.fill(&mut dst);
            match guard(|| (ops.pack_to_slice)(&v, &mut dst)) {
                Err(m) => res.fail("panic-pack", sub, &[], etag.clone(), || format!("pack_to_slice(exact) panicked: {m}; value {}", dbg())),
                Ok(Err(e)) => res.fail("pack-to-slice-refused", sub, &[], etag.clone(), || format!("pack_to_slice into exactly {plen} bytes returned Err({e:?}); value {}", dbg())),
                Ok(Ok(ret)) => {
                    if dst != exp {
                        let (rule, fields, tag) = diff_pack(top, &dst, &exp);
                        res.fail(rule, sub, &fields, tag.or(etag.clone()), || {
                            format!("pack_to_slice(exact, dirty destination) of {} left {} but layout gives {} (fields {:?})", dbg(), hex(&dst), hex(&exp), fields)
                        });
                    } else if ret != exp {
                        res.fail("pack-returned-slice", sub, &[], etag.clone(), || format!("pack_to_slice returned {} but wrote {}", hex(&ret), hex(&dst)));
                    }
                }
            }

            // pack_to_slice, longer destination
            ctx.bump("checks.pack_to_slice_longer");
            let extra = 1 + rng.below(9) as usize;
            let mut dst = vec![0u8; plen + extra];
            rng.fill(&mut dst);
            let before = dst.clone();
            match guard(|| (ops.pack_to_slice)(&v, &mut dst)) {
                Err(m) => res.fail("panic-pack", sub, &[], etag.clone(), || format!("pack_to_slice(longer) panicked: {m}; value {}", dbg())),
                Ok(Err(e)) => res.fail("pack-to-slice-refused", sub, &[], etag.clone(), || format!("pack_to_slice into {} bytes (need {plen}) returned Err({e:?})", plen + extra)),
                Ok(Ok(ret)) => {
                    if dst[..plen] != exp[..] {
                        let (rule, fields, tag) = diff_pack(top, &dst[..plen], &exp);
                        res.fail(rule, sub, &fields, tag.or(etag.clone()), || {
                            format!("pack_to_slice(longer, dirty destination) of {} left {} but layout gives {} (fields {:?})", dbg(), hex(&dst[..plen]), hex(&exp), fields)
                        });
                    } else if dst[plen..] != before[plen..] {
                        res.fail("pack-overrun", sub, &[], etag.clone(), || format!("pack_to_slice wrote past packed length {plen}: tail {} -> {}", hex(&before[plen..]), hex(&dst[plen..])));
                    } else if ret != exp {
                        res.fail("pack-returned-slice", sub, &[], etag.clone(), || format!("pack_to_slice(longer) returned {} (len {}), expected the {plen} packed bytes {}", hex(&ret), ret.len(), hex(&exp)));
                    }
                }
            }

            // pack_to_slice_unchecked, big enough destination
            ctx.bump("checks.pack_unchecked");
            let extra = if rng.chance(1, 2) { 0 } else { 1 + rng.below(9) as usize };
            let mut dst = vec![0u8; plen + extra];
            rng.fill(&mut dst);
            let before = dst.clone();
            match guard(|| (ops.pack_unchecked)(&v, &mut dst)) {
                Err(m) => res.fail("panic-pack", sub, &[], etag.clone(), || format!("pack_to_slice_unchecked({} bytes, need {plen}) panicked: {m}; value {}", plen + extra, dbg())),
                Ok(ret) => {
                    if dst[..plen] != exp[..] {
                        let (rule, fields, tag) = diff_pack(top, &dst[..plen], &exp);
                        res.fail(rule, sub, &fields, tag.or(etag.clone()), || {
                            format!("pack_to_slice_unchecked of {} left {} but layout gives {} (fields {:?})", dbg(), hex(&dst[..plen]), hex(&exp), fields)
                        });
                    } else if dst[plen..] != before[plen..] {
                        res.fail("pack-overrun", sub, &[], etag.clone(), || format!("pack_to_slice_unchecked wrote past packed length {plen}"));
                    } else if ret != exp {
                        res.fail("pack-returned-slice", sub, &[], etag.clone(), || format!("pack_to_slice_unchecked returned {} expected {}", hex(&ret), hex(&exp)));
                    }
                }
            }

            // short destination
            if plen > 0 {
                ctx.bump("checks.short_write");
                let l = rng.below(plen as u64) as usize;
                let mut dst = vec![0u8; l];
                match guard(|| (ops.pack_to_slice)(&v, &mut dst)) {
                    Err(m) => res.fail("panic-short-write", sub, &[], None, || format!("pack_to_slice into {l} of {plen} bytes panicked: {m}")),
                    Ok(Err(WireError::WriteBufferTooShort)) => {}
                    Ok(r) => res.fail("short-write", sub, &[], None, || format!("pack_to_slice into {l} of {plen} bytes returned {:?}, expected Err(WriteBufferTooShort)", r.map(|x| hex(&x)))),
                }
            }

            // round trip
            if ops.readable {
                if let Some(p) = packed {
                    ctx.bump("checks.roundtrip");
                    let want = normalize(top, &v);
                    match guard(|| (ops.unpack)(&p)) {
                        Err(m) => res.fail("panic-unpack", sub, &[], etag.clone(), || format!("unpack(pack(v)) panicked: {m}; v = {}", dbg())),
                        Ok(Err(e)) => res.fail("roundtrip-mismatch", sub, &[], etag.clone(), || format!("unpack(pack(v)) = Err({e:?}); v = {}, packed {}", dbg(), hex(&p))),
                        Ok(Ok(back)) => {
                            if back != want {
                                let fields = diff_vals(top, &back, &want);
                                res.fail("roundtrip-mismatch", sub, &fields, etag.clone(), || {
                                    let b = guard(|| (ops.debug)(&back)).unwrap_or_default();
                                    format!("unpack(pack(v)) = {b} but v = {} (packed {}, fields {:?})", dbg(), hex(&p), fields)
                                });
                            }
                        }
                    }
                }
            }
        }

        // over-range values in sub-byte unsigned fields must not disturb anything else
        if let Top::Struct(s) = top {
            let cands: Vec<usize> = s
                .fields
                .iter()
                .enumerate()
                .filter(|(_, f)| !f.skip && matches!(f.ty, Ty::UInt { container_bits } if (f.bit_width as u32) < container_bits) && f.tag == "struct-u8-subbyte")
                .map(|(i, _)| i)
                .collect();
            if !cands.is_empty() {
                for _ in 0..(n_values / 10).max(8) {
                    sub += 1;
                    ctx.bump("checks.pack_overrange");
                    let v = gen_value(&mut rng, top);
                    let fi = cands[rng.below(cands.len() as u64) as usize];
                    let f = &s.fields[fi];
                    let Val::Seq(mut vals) = v else { unreachable!() };
                    let cb = container_bits(&f.ty, f.bit_width);
                    // some bit above the declared width is set
                    let hi = 1 + rng.below((1u64 << (cb - f.bit_width)) - 1) as i128;
                    let over = (hi << f.bit_width) | rng.bits(f.bit_width) as i128;
                    vals[fi] = Val::Int(over);
                    let v = Val::Seq(vals.clone());
                    // the same value with the field cut down to its declared width
                    vals[fi] = Val::Int(over & ((1i128 << f.bit_width) - 1));
                    let base_v = Val::Seq(vals);
                    // Differential: compare the macro's output for the over-range value with its own
                    // output for the in-range value; outside the field nothing may change. (Whether the
                    // in-range image itself is right is judged by the checks above.)
                    let Ok(mut base) = guard(|| (ops.pack)(&base_v)) else { continue };
                    match guard(|| (ops.pack)(&v)) {
                        Err(m) => res.fail("panic-pack-overrange", sub, &[], Some("struct-u8-subbyte".to_string()), || format!("pack() with a value too wide for {}-bit field {} panicked: {m}", f.bit_width, f.name)),
                        Ok(mut got) => {
                            if got.len() == base.len() && base.len() * 8 >= f.bit_offset + f.bit_width {
                                put_bits(&mut base, f.bit_offset, f.bit_width, 0);
                                put_bits(&mut got, f.bit_offset, f.bit_width, 0);
                            }
                            if got != base {
                                res.fail("pack-overrange-clobber", sub, &[], Some("struct-u8-subbyte".to_string()), || {
                                    format!("value {over} too wide for {}-bit field {} changed bits outside the field: {} vs {} for the truncated value (field bits masked)", f.bit_width, f.name, hex(&got), hex(&base))
                                });
                            }
                        }
                    }
                }
            }
        }

        // every short destination length once
        let v = gen_value(&mut rng, top);
        for l in 0..plen {
            sub += 1;
            ctx.bump("checks.short_write");
            let mut dst = vec![0xA5u8; l];
            match guard(|| (ops.pack_to_slice)(&v, &mut dst)) {
                Err(m) => res.fail("panic-short-write", sub, &[], None, || format!("pack_to_slice into {l} of {plen} bytes panicked: {m}")),
                Ok(Err(WireError::WriteBufferTooShort)) => {}
                Ok(r) => res.fail("short-write", sub, &[], None, || format!("pack_to_slice into {l} of {plen} bytes returned {:?}, expected Err(WriteBufferTooShort)", r.map(|x| hex(&x)))),
            }
        }
    }

    // ---- buffers: unpack (b), short buffers (d) ----------------------------------------------
    if ops.readable {
        for _ in 0..n_buffers {
            sub += 1;
            res.evaluations += 1;
            let buf = gen_buffer(&mut rng, top, &regions, &sites, &mask);
            ctx.bump("checks.unpack");
            if buf.len() > plen {
                ctx.bump("checks.unpack_longer_buffer");
            }
            let before = ctx.stats.enum_invalid;
            let exp = ref_unpack(top, &buf, &mut ctx.stats);
            let _ = before;
            let etag = enum_l.map(|e| enum_construct(e, enum_raw_in_buf(e, &buf)));
            match (exp, guard(|| (ops.unpack)(&buf))) {
                (_, Err(m)) => res.fail("panic-unpack", sub, &[], etag, || format!("unpack_from_slice({}) panicked: {m}", hex(&buf))),
                (Ok(ev), Ok(Ok(gv))) => {
                    ctx.bump("checks.unpack_ok");
                    if ev != gv {
                        let fields = diff_vals(top, &gv, &ev);
                        res.fail("unpack-mismatch", sub, &fields, etag, || {
                            let g = guard(|| (ops.debug)(&gv)).unwrap_or_default();
                            let e = guard(|| (ops.debug)(&ev)).unwrap_or_default();
                            format!("unpack_from_slice({}) = {g} but the layout gives {e} (fields {:?})", hex(&buf), fields)
                        });
                    }
                }
                (ev, Ok(Err(WireError::ReadBufferTooShort))) => {
                    if ev.is_err() {
                        ctx.bump("checks.invalid_enum");
                    }
                    res.fail("unpack-spurious-short", sub, &[], etag, || {
                        let e = match &ev {
                            Ok(v) => guard(|| (ops.debug)(v)).unwrap_or_default(),
                            Err(e) => format!("{e:?}"),
                        };
                        format!("unpack_from_slice of {} bytes (need {plen}) = Err(ReadBufferTooShort), layout gives {e}; buffer {}", buf.len(), hex(&buf))
                    });
                }
                (Ok(ev), Ok(Err(WireError::InvalidValue))) => {
                    res.fail("unpack-mismatch", sub, &[], etag, || {
                        let e = guard(|| (ops.debug)(&ev)).unwrap_or_default();
                        format!("unpack_from_slice({}) = Err(InvalidValue) but every value is defined: layout gives {e}", hex(&buf))
                    });
                }
                (Ok(_), Ok(Err(other))) => {
                    res.fail("unpack-error-kind", sub, &[], etag, || format!("unpack_from_slice({}) = Err({other:?}) for a decodable buffer", hex(&buf)));
                }
                (Err(RefErr::InvalidValue { path, raw }), Ok(Ok(gv))) => {
                    ctx.bump("checks.invalid_enum");
                    let fields = field_of_path(top, &path);
                    res.fail("unpack-mismatch", sub, &fields, etag, || {
                        let g = guard(|| (ops.debug)(&gv)).unwrap_or_default();
                        format!("unpack_from_slice({}) = {g} but {path} holds undefined enum value {raw}: expected Err(InvalidValue)", hex(&buf))
                    });
                }
                (Err(RefErr::InvalidValue { .. }), Ok(Err(WireError::InvalidValue))) => {
                    ctx.bump("checks.invalid_enum");
                }
                (Err(RefErr::InvalidValue { path, raw }), Ok(Err(other))) => {
                    ctx.bump("checks.invalid_enum");
                    res.fail("unpack-error-kind", sub, &field_of_path(top, &path), etag, || {
                        format!("unpack_from_slice({}) = Err({other:?}); {path} holds undefined enum value {raw}: expected Err(InvalidValue)", hex(&buf))
                    });
                }
            }

            // a random short prefix of the same buffer
            if plen > 0 && rng.chance(1, 8) {
                sub += 1;
                let l = rng.below(plen as u64) as usize;
                check_short_read(&mut res, ctx, &ops, &buf[..l], plen, sub);
            }
        }
        // every short length once, with noise
        for l in 0..plen {
            sub += 1;
            let mut b = vec![0u8; l];
            rng.fill(&mut b);
            check_short_read(&mut res, ctx, &ops, &b, plen, sub);
        }
    }
    res
}

fn check_short_read(res: &mut DefResult, ctx: &mut Ctx, ops: &Ops, b: &[u8], plen: usize, sub: u64) {
    ctx.bump("checks.short_read");
    match guard(|| (ops.unpack)(b)) {
        Err(m) => res.fail("panic-short-read", sub, &[], None, || format!("unpack_from_slice of {} of {plen} bytes panicked: {m}", b.len())),
        Ok(Err(WireError::ReadBufferTooShort)) => {}
        Ok(r) => res.fail("short-read", sub, &[], None, || {
            format!("unpack_from_slice of {} of {plen} bytes returned {}, expected Err(ReadBufferTooShort)", b.len(), match r {
                Ok(v) => format!("Ok({})", guard(|| (ops.debug)(&v)).unwrap_or_default()),
                Err(e) => format!("Err({e:?})"),
            })
        }),
    }
}

// ------------------------------------------------------------------------------------------------
// Signature construction
// ------------------------------------------------------------------------------------------------

const SPECIFIC_TAGS: &[&str] = &["struct-int-narrow", "struct-signed-subbyte"];

/// Rules whose failing evaluations carry no usable field information.
fn fieldless(rule: &str) -> bool {
    rule.starts_with("panic-") || rule.starts_with("short-") || rule == "unpack-spurious-short" || rule == "unpack-error-kind" || rule == "packed-len-mismatch" || rule == "pack-to-slice-refused"
}

fn same_family(a: &str, b: &str) -> bool {
    a == b || (a.starts_with("panic-") && b.starts_with("panic-"))
}

/// Construct of the first referenced definition that failed the same rule (or the same family).
fn inherit(rule: &str, candidates: &[usize], done: &BTreeMap<usize, DefResult>) -> Option<String> {
    for c in candidates {
        if let Some(l) = done.get(c).and_then(|r| r.labels.get(rule)) {
            return Some(l.clone());
        }
    }
    for c in candidates {
        if let Some(r) = done.get(c) {
            if let Some((_, l)) = r.labels.iter().find(|(k, _)| same_family(k, rule)) {
                return Some(l.clone());
            }
        }
    }
    None
}

/// A mismatch in a field whose type is another generated definition: if that definition fails on
/// its own, the failure is its, whatever the rule (e.g. a wrong decode shows as round-trip failure
/// in the parent).
fn inherit_field(rule: &str, def_ref: usize, done: &BTreeMap<usize, DefResult>) -> Option<String> {
    inherit(rule, &[def_ref], done).or_else(|| {
        done.get(&def_ref).and_then(|r| {
            r.labels
                .iter()
                .find(|(k, _)| !fieldless(k))
                .map(|(_, l)| l.clone())
        })
    })
}

/// Decide the `<construct>` of every failing rule of this definition.
pub fn finalize(def: &Def, res: &mut DefResult, done: &BTreeMap<usize, DefResult>) {
    let rules: Vec<&'static str> = res.rules.keys().copied().collect();
    for rule in rules {
        let acc = &res.rules[rule];
        // handling of short buffers does not depend on what is inside the type
        if rule == "short-read" || rule == "short-write" || rule == "panic-short-read" || rule == "panic-short-write" {
            let kind = match def.top {
                Top::Enum(_) => "enum",
                Top::Struct(_) => "struct",
            };
            res.labels.insert(rule, kind.to_string());
            continue;
        }
        let label = match def.top {
            Top::Enum(e) => {
                if !e.implicit_class.is_empty() {
                    e.implicit_class.to_string()
                } else if let Some(t) = acc.enum_tags.iter().next() {
                    t.clone()
                } else {
                    def.risk.to_string()
                }
            }
            Top::Struct(s) => {
                let field = if fieldless(rule) { None } else { acc.fields.iter().next().copied() };
                if let Some(fi) = field {
                    let f = &s.fields[fi];
                    let child = if f.def_ref >= 0 { inherit_field(rule, f.def_ref as usize, done) } else { None };
                    if let Some(l) = child {
                        l
                    } else if SPECIFIC_TAGS.contains(&f.tag) {
                        f.tag.to_string()
                    } else if f.pre_skip_bits > 0 {
                        "struct-pre-skip".to_string()
                    } else if s.fields[..fi].iter().rev().find(|p| !p.skip).map_or(false, |p| p.post_skip_bits > 0) {
                        "struct-post-skip".to_string()
                    } else {
                        f.tag.to_string()
                    }
                } else if let Some(t) = acc.enum_tags.iter().next() {
                    // explicit construct given by the check (undeclared-bit kinds, over-range probe)
                    t.clone()
                } else if fieldless(rule) && SPECIFIC_TAGS.contains(&def.risk) {
                    // panics / spurious errors of a struct that holds a field known to be troublesome
                    def.risk.to_string()
                } else if let Some(l) = inherit(rule, def.deps, done) {
                    l
                } else if !fieldless(rule) {
                    // a value-level disagreement without field (Ok vs Err): a referenced definition that
                    // fails value-level rules on its own explains it
                    def.deps
                        .iter()
                        .find_map(|d| done.get(d).and_then(|r| r.labels.iter().find(|(k, _)| !fieldless(k)).map(|(_, l)| l.clone())))
                        .unwrap_or_else(|| def.risk.to_string())
                } else {
                    def.risk.to_string()
                }
            }
        };
        res.labels.insert(rule, label);
    }
}

// ------------------------------------------------------------------------------------------------
// JSON output
// ------------------------------------------------------------------------------------------------

pub fn jstr(s: &str) -> String {
    let mut o = String::with_capacity(s.len() + 2);
    o.push('"');
    for c in s.chars() {
        match c {
            '"' => o.push_str("\\\""),
            '\\' => o.push_str("\\\\"),
            '\n' => o.push_str("\\n"),
            '\r' => o.push_str("\\r"),
            '\t' => o.push_str("\\t"),
            c if (c as u32) < 0x20 => o.push_str(&format!("\\u{:04x}", c as u32)),
            c => o.push(c),
        }
    }
    o.push('"');
    o
}

pub struct Violation {
    pub signature: String,
    pub detail: String,
    pub case: usize,
    pub sub: u64,
    pub count: u64,
}

pub struct Report {
    pub evaluations: u64,
    pub counters: BTreeMap<String, u64>,
    pub violations: Vec<Violation>,
    pub samples: Vec<(usize, String, String)>,
    pub observations: BTreeMap<String, Vec<String>>,
    pub defs_run: Vec<usize>,
}

impl Report {
    pub fn to_json(&self) -> String {
        let mut o = String::new();
        o.push_str("{\n");
        o.push_str(&format!("\"evaluations\": {},\n", self.evaluations));
        o.push_str("\"defs_run\": [");
        o.push_str(&self.defs_run.iter().map(|x| x.to_string()).collect::<Vec<_>>().join(","));
        o.push_str("],\n\"counters\": {");
        o.push_str(&self.counters.iter().map(|(k, v)| format!("{}: {}", jstr(k), v)).collect::<Vec<_>>().join(", "));
        o.push_str("},\n\"samples\": [");
        o.push_str(
            &self
                .samples
                .iter()
                .map(|(i, v, p)| format!("{{\"case\": {}, \"value\": {}, \"packed\": {}}}", i, jstr(v), jstr(p)))
                .collect::<Vec<_>>()
                .join(", "),
        );
        o.push_str("],\n\"observations\": {");
        o.push_str(
            &self
                .observations
                .iter()
                .map(|(k, v)| format!("{}: [{}]", jstr(k), v.iter().map(|s| jstr(s)).collect::<Vec<_>>().join(", ")))
                .collect::<Vec<_>>()
                .join(", "),
        );
        o.push_str("},\n\"violations\": [");
        o.push_str(
            &self
                .violations
                .iter()
                .map(|v| {
                    format!(
                        "{{\"signature\": {}, \"detail\": {}, \"case\": {}, \"sub\": {}, \"count\": {}}}",
                        jstr(&v.signature),
                        jstr(&v.detail),
                        v.case,
                        v.sub,
                        v.count
                    )
                })
                .collect::<Vec<_>>()
                .join(",\n"),
        );
        o.push_str("]\n}\n");
        o
    }
}

// ------------------------------------------------------------------------------------------------
// Entry point
// ------------------------------------------------------------------------------------------------

pub struct Args {
    pub seed: u64,
    pub shard: u64,
    pub n_values: u64,
    pub n_buffers: u64,
    pub only: Option<usize>,
}

pub fn parse_args() -> Args {
    let mut a = Args {
        seed: 1,
        shard: 0,
        n_values: 600,
        n_buffers: 600,
        only: None,
    };
    let v: Vec<String> = std::env::args().collect();
    let mut i = 1;
    while i + 1 < v.len() {
        let val = &v[i + 1];
        match v[i].as_str() {
            "--seed" => a.seed = val.parse().expect("--seed"),
            "--shard" => a.shard = val.parse().expect("--shard"),
            "--values" => a.n_values = val.parse().expect("--values"),
            "--buffers" => a.n_buffers = val.parse().expect("--buffers"),
            "--only" => a.only = Some(val.parse().expect("--only")),
            other => panic!("unknown argument {other}"),
        }
        i += 2;
    }
    a
}

/// First case number of the static in-crate checks.
pub const INCRATE_BASE: usize = 100_000;

pub fn run(defs: Vec<Def>, report_defs: &[usize]) {
    std::panic::set_hook(Box::new(|_| {}));
    let args = parse_args();
    let cfg = RunCfg {
        seed: args.seed,
        shard: args.shard,
        n_values: args.n_values,
        n_buffers: args.n_buffers,
    };
    let mut ctx = Ctx::new();
    let mut done: BTreeMap<usize, DefResult> = BTreeMap::new();
    let mut report = Report {
        evaluations: 0,
        counters: BTreeMap::new(),
        violations: Vec::new(),
        samples: Vec::new(),
        observations: BTreeMap::new(),
        defs_run: Vec::new(),
    };

    // Which definitions are reported: all listed ones, or just `--only K`; dependencies of a
    // reported definition are always executed (their outcome names the construct) but are only
    // reported when selected themselves.
    let selected = |i: usize| -> bool {
        match args.only {
            Some(k) => k == i,
            None => report_defs.contains(&i),
        }
    };

    for def in &defs {
        let needed = selected(def.index)
            || defs.iter().any(|d| selected(d.index) && d.deps.contains(&def.index));
        if !needed {
            continue;
        }
        let mut scratch = Ctx::new();
        let use_ctx: &mut Ctx = if selected(def.index) { &mut ctx } else { &mut scratch };
        let mut res = run_def(def, &cfg, use_ctx);
        finalize(def, &mut res, &done);
        if selected(def.index) {
            report.defs_run.push(def.index);
            report.evaluations += res.evaluations;
            if let Some((v, p)) = &res.sample {
                report.samples.push((def.index, v.clone(), p.clone()));
            }
            for (rule, acc) in &res.rules {
                report.violations.push(Violation {
                    signature: format!("C19:{}:{}", rule, res.labels[rule]),
                    detail: format!("{}: {}", def.top.name(), acc.first_detail),
                    case: def.index,
                    sub: acc.first_sub,
                    count: acc.count,
                });
            }
        }
        done.insert(def.index, res);
    }

    // static checks of the hand-written impls in ethercrab-wire / public ethercrab types
    crate::incrate::run(&cfg, args.only, &mut ctx, &mut report);

    let st = ctx.stats.clone();
    ctx.add("decode.enum_primary", st.enum_primary);
    ctx.add("decode.enum_alternative", st.enum_alternative);
    ctx.add("decode.enum_catch_all", st.enum_catch_all);
    ctx.add("decode.enum_default", st.enum_default);
    ctx.add("decode.enum_invalid", st.enum_invalid);
    ctx.add("decode.enum_negative", st.enum_negative);
    ctx.add("decode.signed_negative", st.signed_negative);
    ctx.add("decode.bool_non_canonical", st.bool_non_canonical);
    report.counters = ctx.counters;
    print!("{}", report.to_json());
}
