//! Independent bit-level reference packer/unpacker for property C19.
//!
//! Written from the *layout description* only (bit offset, bit width, kind, signedness, enum value
//! table, nested layout, array element). It never calls into `ethercrab-wire` and does not follow
//! the structure of the derive macro's generated code: everything is done one bit at a time on a
//! flat bit string where bit `k` of the packed value lives in byte `k / 8`, bit `k % 8`
//! (EtherCAT / little-endian bit numbering).
//!
//! Static file: `gen.py` copies it unchanged into every generated crate.

#![allow(dead_code)]

// ------------------------------------------------------------------------------------------------
// Layout description
// ------------------------------------------------------------------------------------------------

/// The type of one field (or array element / tuple member).
#[derive(Debug)]
pub enum Ty {
    /// Unsigned integer held in a Rust `u{container_bits}`.
    UInt { container_bits: u32 },
    /// Two's complement signed integer held in a Rust `i{container_bits}`.
    SInt { container_bits: u32 },
    /// Boolean: packs as the integer 1 / 0, any non-zero bit pattern reads as `true`.
    Bool,
    /// IEEE float, handled as its raw bit pattern (`bits` = 32 or 64).
    Float { bits: u32 },
    /// A generated enum.
    Enum(&'static EnumLayout),
    /// A generated struct.
    Struct(&'static StructLayout),
    /// `[elem; n]`, element `i` starts `i * stride_bits` after the start of the array and is
    /// `stride_bits` wide.
    Array {
        elem: &'static Ty,
        n: usize,
        stride_bits: usize,
    },
    /// A Rust tuple, members at fixed offsets.
    Tuple(&'static [TupleMember]),
}

#[derive(Debug)]
pub struct TupleMember {
    pub bit_offset: usize,
    pub bit_width: usize,
    pub ty: Ty,
}

#[derive(Debug)]
pub struct FieldLayout {
    pub name: &'static str,
    /// Offset of the least significant bit of this field from the start of the struct.
    pub bit_offset: usize,
    /// Declared width in bits.
    pub bit_width: usize,
    pub ty: Ty,
    /// `#[wire(skip)]`: not on the wire at all, reads back as `Default`.
    pub skip: bool,
    /// Declared skip immediately before / after this field, in bits (informational, the offsets
    /// above already include them).
    pub pre_skip_bits: usize,
    pub post_skip_bits: usize,
    /// Construct name used in violation signatures.
    pub tag: &'static str,
    /// Index (in the definition table) of the generated definition this field's type refers to,
    /// directly or as array element; -1 if none.
    pub def_ref: i32,
}

#[derive(Debug)]
pub struct StructLayout {
    pub name: &'static str,
    pub width_bits: usize,
    pub fields: &'static [FieldLayout],
}

#[derive(Debug)]
pub struct VariantLayout {
    pub name: &'static str,
    /// Primary discriminant first (the value written when packing), then the alternatives.
    /// Empty for the catch-all variant.
    pub values: &'static [i128],
    pub catch_all: bool,
    pub default: bool,
    /// Discriminant was not written in the definition (Rust assigns previous + 1, first = 0).
    pub implicit: bool,
}

#[derive(Debug)]
pub struct EnumLayout {
    pub name: &'static str,
    pub repr_bits: u32,
    pub signed: bool,
    pub variants: &'static [VariantLayout],
    /// "" when every discriminant is explicit, otherwise one of `enum-implicit-first`,
    /// `enum-implicit-after-alternatives`, `enum-implicit-after-explicit`.
    pub implicit_class: &'static str,
}

#[derive(Debug, Clone, Copy)]
pub enum Top {
    Struct(&'static StructLayout),
    Enum(&'static EnumLayout),
}

impl Top {
    pub fn width_bits(&self) -> usize {
        match self {
            Top::Struct(s) => s.width_bits,
            Top::Enum(e) => e.repr_bits as usize,
        }
    }
    pub fn packed_len(&self) -> usize {
        self.width_bits().div_ceil(8)
    }
    pub fn name(&self) -> &'static str {
        match self {
            Top::Struct(s) => s.name,
            Top::Enum(e) => e.name,
        }
    }
}

// ------------------------------------------------------------------------------------------------
// Dynamic values
// ------------------------------------------------------------------------------------------------

/// A value of any generated type, independent of the Rust type.
#[derive(Debug, Clone, PartialEq)]
pub enum Val {
    /// Integers (mathematical value), bools (0/1) and floats (raw bits, unsigned).
    Int(i128),
    /// Enum: variant index in `EnumLayout::variants`, payload of the catch-all variant (0 for
    /// every other variant).
    Enum(usize, i128),
    /// Struct fields (all of them, also `skip` ones), array elements or tuple members in order.
    Seq(Vec<Val>),
}

#[derive(Debug, Clone, PartialEq)]
pub enum RefErr {
    /// An enum without catch-all/default met a value that is not in its table.
    InvalidValue { path: String, raw: i128 },
}

/// What the reference saw while decoding, for the evidence counters.
#[derive(Debug, Default, Clone)]
pub struct DecodeStats {
    pub enum_primary: u64,
    pub enum_alternative: u64,
    pub enum_catch_all: u64,
    pub enum_default: u64,
    pub enum_invalid: u64,
    pub enum_negative: u64,
    pub signed_negative: u64,
    pub bool_non_canonical: u64,
}

// ------------------------------------------------------------------------------------------------
// Bit strings
// ------------------------------------------------------------------------------------------------

#[inline]
pub fn get_bit(buf: &[u8], k: usize) -> bool {
    (buf[k / 8] >> (k % 8)) & 1 == 1
}

#[inline]
pub fn put_bit(buf: &mut [u8], k: usize, v: bool) {
    if v {
        buf[k / 8] |= 1 << (k % 8);
    } else {
        buf[k / 8] &= !(1 << (k % 8));
    }
}

/// Read `w <= 128` bits starting at bit `off`; bit `off` is the least significant.
pub fn get_bits(buf: &[u8], off: usize, w: usize) -> u128 {
    let mut out = 0u128;
    for i in 0..w {
        if get_bit(buf, off + i) {
            out |= 1u128 << i;
        }
    }
    out
}

/// Write the low `w` bits of `v` starting at bit `off`.
pub fn put_bits(buf: &mut [u8], off: usize, w: usize, v: u128) {
    for i in 0..w {
        put_bit(buf, off + i, (v >> i) & 1 == 1);
    }
}

fn sign_extend(raw: u128, w: usize) -> i128 {
    if w == 0 {
        return 0;
    }
    if w >= 128 {
        return raw as i128;
    }
    if (raw >> (w - 1)) & 1 == 1 {
        (raw as i128) - (1i128 << w)
    } else {
        raw as i128
    }
}

// ------------------------------------------------------------------------------------------------
// Pack
// ------------------------------------------------------------------------------------------------

/// Packed image of `val`: `packed_len` bytes, declared fields at their positions, everything else 0.
pub fn ref_pack(top: Top, val: &Val) -> Vec<u8> {
    let mut buf = vec![0u8; top.packed_len()];
    match top {
        Top::Struct(s) => pack_struct(s, val, &mut buf, 0),
        Top::Enum(e) => pack_enum(e, e.repr_bits as usize, val, &mut buf, 0),
    }
    buf
}

fn pack_struct(s: &StructLayout, val: &Val, buf: &mut [u8], base: usize) {
    let Val::Seq(vals) = val else {
        panic!("reference: struct value expected for {}", s.name)
    };
    assert_eq!(vals.len(), s.fields.len(), "reference: field count {}", s.name);
    for (f, v) in s.fields.iter().zip(vals.iter()) {
        if f.skip {
            continue;
        }
        pack_ty(&f.ty, f.bit_width, v, buf, base + f.bit_offset);
    }
}

fn pack_enum(e: &EnumLayout, width: usize, val: &Val, buf: &mut [u8], at: usize) {
    let Val::Enum(idx, payload) = val else {
        panic!("reference: enum value expected for {}", e.name)
    };
    let var = &e.variants[*idx];
    let raw: i128 = if var.catch_all { *payload } else { var.values[0] };
    put_bits(buf, at, width.min(e.repr_bits as usize), raw as u128);
}

pub fn pack_ty(ty: &Ty, width: usize, val: &Val, buf: &mut [u8], at: usize) {
    match ty {
        Ty::UInt { .. } | Ty::SInt { .. } | Ty::Float { .. } => {
            let Val::Int(v) = val else {
                panic!("reference: int expected")
            };
            // two's complement truncation to the declared width
            put_bits(buf, at, width, *v as u128);
        }
        Ty::Bool => {
            let Val::Int(v) = val else {
                panic!("reference: bool expected")
            };
            put_bits(buf, at, width, if *v != 0 { 1 } else { 0 });
        }
        Ty::Enum(e) => pack_enum(e, width, val, buf, at),
        Ty::Struct(s) => pack_struct(s, val, buf, at),
        Ty::Array { elem, n, stride_bits } => {
            let Val::Seq(vals) = val else {
                panic!("reference: array expected")
            };
            assert_eq!(vals.len(), *n);
            for (i, v) in vals.iter().enumerate() {
                pack_ty(elem, *stride_bits, v, buf, at + i * stride_bits);
            }
        }
        Ty::Tuple(members) => {
            let Val::Seq(vals) = val else {
                panic!("reference: tuple expected")
            };
            assert_eq!(vals.len(), members.len());
            for (m, v) in members.iter().zip(vals.iter()) {
                pack_ty(&m.ty, m.bit_width, v, buf, at + m.bit_offset);
            }
        }
    }
}

// ------------------------------------------------------------------------------------------------
// Unpack
// ------------------------------------------------------------------------------------------------

/// Decode `buf` (must be at least `packed_len` long; the caller checks that) per the layout.
pub fn ref_unpack(top: Top, buf: &[u8], stats: &mut DecodeStats) -> Result<Val, RefErr> {
    assert!(buf.len() >= top.packed_len());
    match top {
        Top::Struct(s) => unpack_struct(s, buf, 0, s.name, stats),
        Top::Enum(e) => unpack_enum(e, e.repr_bits as usize, buf, 0, e.name, stats),
    }
}

fn unpack_struct(
    s: &StructLayout,
    buf: &[u8],
    base: usize,
    path: &str,
    stats: &mut DecodeStats,
) -> Result<Val, RefErr> {
    let mut out = Vec::with_capacity(s.fields.len());
    for f in s.fields {
        if f.skip {
            out.push(default_val(&f.ty));
            continue;
        }
        let p = format!("{}.{}", path, f.name);
        out.push(unpack_ty(&f.ty, f.bit_width, buf, base + f.bit_offset, &p, stats)?);
    }
    Ok(Val::Seq(out))
}

fn unpack_enum(
    e: &EnumLayout,
    width: usize,
    buf: &[u8],
    at: usize,
    path: &str,
    stats: &mut DecodeStats,
) -> Result<Val, RefErr> {
    let w = width.min(e.repr_bits as usize);
    let raw_u = get_bits(buf, at, w);
    let raw: i128 = if e.signed && w == e.repr_bits as usize {
        sign_extend(raw_u, w)
    } else {
        raw_u as i128
    };
    if raw < 0 {
        stats.enum_negative += 1;
    }
    for (i, v) in e.variants.iter().enumerate() {
        if let Some(pos) = v.values.iter().position(|x| *x == raw) {
            if pos == 0 {
                stats.enum_primary += 1;
            } else {
                stats.enum_alternative += 1;
            }
            return Ok(Val::Enum(i, 0));
        }
    }
    // Catch-all takes precedence over default (a catch-all can represent the value exactly).
    if let Some(i) = e.variants.iter().position(|v| v.catch_all) {
        stats.enum_catch_all += 1;
        return Ok(Val::Enum(i, raw));
    }
    if let Some(i) = e.variants.iter().position(|v| v.default) {
        stats.enum_default += 1;
        return Ok(Val::Enum(i, 0));
    }
    stats.enum_invalid += 1;
    Err(RefErr::InvalidValue {
        path: path.to_string(),
        raw,
    })
}

pub fn unpack_ty(
    ty: &Ty,
    width: usize,
    buf: &[u8],
    at: usize,
    path: &str,
    stats: &mut DecodeStats,
) -> Result<Val, RefErr> {
    Ok(match ty {
        Ty::UInt { .. } | Ty::Float { .. } => Val::Int(get_bits(buf, at, width) as i128),
        Ty::SInt { .. } => {
            let v = sign_extend(get_bits(buf, at, width), width);
            if v < 0 {
                stats.signed_negative += 1;
            }
            Val::Int(v)
        }
        Ty::Bool => {
            let raw = get_bits(buf, at, width);
            if raw > 1 {
                stats.bool_non_canonical += 1;
            }
            Val::Int((raw != 0) as i128)
        }
        Ty::Enum(e) => unpack_enum(e, width, buf, at, path, stats)?,
        Ty::Struct(s) => unpack_struct(s, buf, at, path, stats)?,
        Ty::Array { elem, n, stride_bits } => {
            let mut out = Vec::with_capacity(*n);
            for i in 0..*n {
                let p = format!("{}[{}]", path, i);
                out.push(unpack_ty(elem, *stride_bits, buf, at + i * stride_bits, &p, stats)?);
            }
            Val::Seq(out)
        }
        Ty::Tuple(members) => {
            let mut out = Vec::with_capacity(members.len());
            for (i, m) in members.iter().enumerate() {
                let p = format!("{}.{}", path, i);
                out.push(unpack_ty(&m.ty, m.bit_width, buf, at + m.bit_offset, &p, stats)?);
            }
            Val::Seq(out)
        }
    })
}

/// `Default::default()` of a skipped field's type, as a `Val`.
pub fn default_val(ty: &Ty) -> Val {
    match ty {
        Ty::UInt { .. } | Ty::SInt { .. } | Ty::Float { .. } | Ty::Bool => Val::Int(0),
        Ty::Array { elem, n, .. } => Val::Seq((0..*n).map(|_| default_val(elem)).collect()),
        Ty::Tuple(m) => Val::Seq(m.iter().map(|m| default_val(&m.ty)).collect()),
        Ty::Enum(e) => {
            let i = e.variants.iter().position(|v| v.default).unwrap_or(0);
            Val::Enum(i, 0)
        }
        Ty::Struct(s) => Val::Seq(s.fields.iter().map(|f| default_val(&f.ty)).collect()),
    }
}

/// The value one expects back after a round trip: `skip` fields become their default.
pub fn normalize(top: Top, val: &Val) -> Val {
    match top {
        Top::Struct(s) => normalize_struct(s, val),
        Top::Enum(_) => val.clone(),
    }
}

fn normalize_struct(s: &StructLayout, val: &Val) -> Val {
    let Val::Seq(vals) = val else {
        panic!("reference: struct value expected")
    };
    Val::Seq(
        s.fields
            .iter()
            .zip(vals.iter())
            .map(|(f, v)| {
                if f.skip {
                    default_val(&f.ty)
                } else {
                    normalize_ty(&f.ty, v)
                }
            })
            .collect(),
    )
}

fn normalize_ty(ty: &Ty, v: &Val) -> Val {
    match (ty, v) {
        (Ty::Struct(s), _) => normalize_struct(s, v),
        (Ty::Array { elem, .. }, Val::Seq(vs)) => {
            Val::Seq(vs.iter().map(|x| normalize_ty(elem, x)).collect())
        }
        _ => v.clone(),
    }
}

// ------------------------------------------------------------------------------------------------
// Declared-bit bookkeeping (which bits belong to which top-level field)
// ------------------------------------------------------------------------------------------------

/// Mark every bit that some leaf field declares. Everything not marked must be 0 after packing.
pub fn declared_mask(top: Top) -> Vec<u8> {
    let mut m = vec![0u8; top.packed_len()];
    match top {
        Top::Struct(s) => mark_struct(s, &mut m, 0),
        Top::Enum(e) => put_bits(&mut m, 0, e.repr_bits as usize, u128::MAX),
    }
    m
}

fn mark_struct(s: &StructLayout, m: &mut [u8], base: usize) {
    for f in s.fields {
        if !f.skip {
            mark_ty(&f.ty, f.bit_width, m, base + f.bit_offset);
        }
    }
}

fn mark_ty(ty: &Ty, width: usize, m: &mut [u8], at: usize) {
    match ty {
        Ty::Struct(s) => mark_struct(s, m, at),
        Ty::Array { elem, n, stride_bits } => {
            for i in 0..*n {
                mark_ty(elem, *stride_bits, m, at + i * stride_bits);
            }
        }
        Ty::Tuple(ms) => {
            for x in *ms {
                mark_ty(&x.ty, x.bit_width, m, at + x.bit_offset);
            }
        }
        Ty::Enum(e) => {
            for i in 0..width.min(e.repr_bits as usize) {
                put_bit(m, at + i, true);
            }
        }
        _ => {
            for i in 0..width {
                put_bit(m, at + i, true);
            }
        }
    }
}
