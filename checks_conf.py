"""Per-property run configuration for ./check (what to build, how many shards, floors)."""

def native(name, bin, build="release", **kw):
    d = dict(name=name, bin=bin, build=build)
    d.update(kw)
    return d

PROPS = {
    "C05": dict(
        level="exploration",
        engine="pduloop",
        technique="runtime monitoring: before/after slot snapshots around every PduRx::receive_frame call on generated hostile inputs (catch_unwind + state/buffer diff oracle), debug and release builds",
        level_text=("Seeded exploration: the real receive path is fed tens of thousands (quick) to millions (thorough) of truncated, oversized, "
                    "field-swept, foreign, echoed, duplicated and random frames in every slot-state combination a single thread can hold over 1/2/4 slots; "
                    "a monitor diffs all slots around each call. Held = no panic, no side effect of a non-accepted frame, accepted frames only into the awaiting slot, on everything generated."),
        level_note="Trusts the cfg-gated slot inspector and the harness' independent frame reading; only sampled inputs are judged; concurrent RX/app interleavings are C01/C02/C06.",
        rule=("case = (slot-state vector reached by a prefix script over 1/2/4 slots, hostile input class, mutated field value); "
              "non-trivial = the input is not byte-identical to the genuine response; distinct by hash of that triple"),
        assumptions=[
            "slot snapshots are taken through the cfg(ethercrab_verif) inspector while no other thread runs",
            "RxBusy cannot be held from outside receive_frame in a single thread, so it is not in the prefix alphabet (C06 covers it)",
        ],
        min_distinct=dict(quick=20000, thorough=500000),
        required_counters=["accepted", "input.oversize", "input.truncate", "input.own-echo", "input.index-of-non-awaiting",
                           "prefix_state.Sent", "prefix_state.RxDone", "prefix_state.RxProcessing", "prefix_state.Sending"],
        runs=[
            native("rx-release", "c05", "release"),
            native("rx-debug", "c05", "debug", args={"scale-pct": dict(quick=25, thorough=10)}),
        ],
    ),
}
