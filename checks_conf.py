"""Per-property run configuration for ./check (what to build, how many shards, floors)."""

def native(name, bin, build="release", **kw):
    d = dict(name=name, bin=bin, build=build)
    d.update(kw)
    return d

PROPS = {
    "C05": dict(
        level="exploration",
        engine="pduloop",
        technique="runtime monitoring: before/after slot snapshots around every PduRx::receive_frame call on generated hostile inputs (catch_unwind + state/buffer diff oracle), debug and release builds",
        level_text=("Seeded exploration: the real receive path is fed tens of thousands (quick) to millions (thorough) of truncated, oversized, "
                    "field-swept, foreign, echoed, duplicated and random frames in every slot-state combination a single thread can hold over 1/2/4 slots; "
                    "a monitor diffs all slots around each call. Held = no panic, no side effect of a non-accepted frame, accepted frames only into the awaiting slot, on everything generated."),
        level_note="Trusts the cfg-gated slot inspector and the harness' independent frame reading; only sampled inputs are judged; concurrent RX/app interleavings are C01/C02/C06.",
        rule=("case = (slot-state vector reached by a prefix script over 1/2/4 slots, hostile input class, mutated field value); "
              "non-trivial = the input is not byte-identical to the genuine response; distinct by hash of that triple"),
        assumptions=[
            "slot snapshots are taken through the cfg(ethercrab_verif) inspector while no other thread runs",
            "RxBusy cannot be held from outside receive_frame in a single thread, so it is not in the prefix alphabet (C06 covers it)",
        ],
        min_distinct=dict(quick=20000, thorough=500000),
        required_counters=["accepted", "input.oversize", "input.truncate", "input.own-echo", "input.index-of-non-awaiting",
                           "prefix_state.Sent", "prefix_state.RxDone", "prefix_state.RxProcessing", "prefix_state.Sending"],
        runs=[
            native("rx-release", "c05", "release"),
            native("rx-debug", "c05", "debug", args={"scale-pct": dict(quick=25, thorough=10)}),
            # the same generator under Miri: an out-of-bounds or aliasing access in the receive path is a tool report
            native("rx-miri", "c05", "miri", args={"cases-total": dict(quick=48, thorough=1600), "case-offset": 1000000}, shards=16, timeout=dict(quick=7200, thorough=6 * 3600)),
        ],
    ),

    "C01": dict(
        level="exploration",
        engine="pduloop",
        technique="runtime monitoring under a deterministic baton scheduler: every shared-state access of the PDU loop is a cfg-gated yield point; tagged requests + keyed wire responses give an unambiguous history; M-route/M-view oracles at the API boundary",
        level_text=("Seeded exploration of interleavings (random, PCT priorities, chosen pre-emption points) of 1-3 application tasks, TX and RX over 1/2/4/8 slots with in-order, reversed, random and duplicated response delivery. "
                    "Every request carries a unique tag; the wire answers with a keyed function of the tag, so a completion with anything but its own bytes/working counter, a delivered response whose request never completes (scheduler detects that nobody is left to wake the caller), "
                    "a view that shows bytes outside its data area after any front trim, or a held view whose bytes change while other requests run, is decided without search. Held = none of these on the executions produced."),
        level_note="Sequentially consistent interleavings only (weak-memory effects are left to the Miri/TSan runs of C02); sampled schedules, not all; the <256-indices-in-flight assumption is respected by construction; views produced by the crate-internal iterator are judged only while the iterator (which owns the frame) is alive.",
        rule=("case = one execution (configuration + schedule); non-trivial = at least two actors interleaved on one slot or a reorder/duplicate/abandon happened; distinct by hash of the full hook-event trace and of the schedule"),
        assumptions=["fewer than 256 datagram indices are allocated while a request is outstanding", "no deadline expires for observed requests (timeout = 100000 s of virtual time)", "the baton serialises actors: only sequentially consistent interleavings"],
        min_distinct=dict(quick=10000, thorough=300000),
        required_counters=["requests_completed", "responses_reordered", "responses_duplicated", "views_held_across_requests", "front_trims", "cfg.index_wrap_family",
                           "site.RxFound", "site.WakerTake", "site.PollBegin", "transition.swap:RxBusy->RxDone", "transition.swap:RxDone->RxProcessing"],
        runs=[
            native("sched-release", "c01", "release", args={"family": "c01", "scale-pct": dict(quick=500, thorough=200)}),
            native("sched-debug", "c01", "debug", args={"family": "c01", "scale-pct": dict(quick=60, thorough=10)}),
            native("sched-miri", "c01", "miri", args={"family": "c01", "cases-total": dict(quick=16, thorough=160), "case-offset": 1000000}, shards=16, timeout=dict(quick=7200, thorough=6 * 3600)),
        ],
    ),
    "C02": dict(
        level="exploration",
        engine="pduloop",
        technique="runtime monitoring under the baton scheduler: shadow lifecycle state per slot fed by state-change hooks (transition relation), buffer access windows (builder/TX/RX/reader) and ownership generations checked on every event",
        level_text=("Seeded + systematic (all single/double pre-emption placements over the first ~260 steps of small 1-2 slot configurations) exploration of interleavings with send failures (error/partial), duplicate and late responses, abandonment in every non-inside state, requests the wire never answers whose deadline passes while the frame is Sent (nobody inside), and resolved futures that the caller keeps and drops only some requests later. "
                    "Monitors: every observed state change must be in the documented lifecycle relation; a window onto a slot's buffer may not open while another party's window is open; a slot may not be re-initialised while any handle of the previous request (created frame, future, TX/RX claim, received frame, view) is alive. Held = no such event on the executions produced."),
        level_note="Exact because the baton serialises actors (shadow state == real state, asserted). Weak-memory-only races are outside the baton's reach; those are the business of the free-running variant (c02free: 3-5 OS threads, no baton) run under ThreadSanitizer (both tiers) and under Miri's race detector / Stacked Borrows / weak-memory emulation (both tiers, a different Miri scheduler seed and pre-emption rate per shard), where a tool report is the violation.",
        rule="case = one execution; non-trivial and distinct as for C01 (hash of event trace + schedule); aux_distinct = distinct slot-state vectors observed",
        assumptions=["abandonment only while neither TX nor RX is inside the slot (C06 covers the rest)", "sequentially consistent interleavings"],
        min_distinct=dict(quick=10000, thorough=300000),
        required_counters=["send_failures", "requests_abandoned", "responses_duplicated", "access_windows", "transition.swap:Sending->Sendable", "transition.swap:Sent->None", "transition.swap:Created->None", "cfg.policy.preempt-at", "unanswered_requests_expired_while_sent", "resolved_futures_dropped_late", "free.requests_completed", "free.requests_abandoned", "free.view_checks"],
        runs=[
            native("sched-release", "c01", "release", args={"family": "c02", "scale-pct": dict(quick=500, thorough=200)}),
            native("sched-debug", "c01", "debug", args={"family": "c02", "scale-pct": dict(quick=60, thorough=10)}),
            native("sched-miri", "c01", "miri", args={"family": "c02", "cases-total": dict(quick=16, thorough=160), "case-offset": 1000000}, shards=16, timeout=dict(quick=7200, thorough=6 * 3600)),
            # free-running OS threads (no baton) under ThreadSanitizer: real weak-memory executions
            native("free-tsan", "c02free", "tsan", args={"reqs": dict(quick=12, thorough=40)}, shards=dict(quick=8, thorough=16)),
            # the same workload, tiny, under Miri (data-race detector + Stacked Borrows + weak-memory emulation),
            # a different Miri scheduler seed and pre-emption rate per shard
            native("free-miri", "c02free", "miri", args={"reqs": dict(quick=3, thorough=4), "scale-pct": dict(quick=50, thorough=60)}, shards=16, timeout=dict(quick=7200, thorough=6 * 3600)),
        ],
    ),
    "C03": dict(
        level="exploration",
        engine="pduloop",
        technique="runtime monitoring of operation histories: conservation invariant (slots not free == live owning handles) checked through the slot inspector after every operation, plus a drain-and-reallocate probe through MainDevice and a reset probe",
        level_text=("Random operation histories (depth <= 40) over 1/2/4 slots mixing round trips, refused pushes, send errors and partial sends, lost/duplicate/garbage/oversized responses, expiry with 0-3 retries or forever under virtual time, drops of every handle kind (including futures that have already resolved and are dropped only later) and reset. "
                    "After each operation the number of non-free slots must equal the number of live handles that own one; an allocation may fail only when all N are owned; after the history N single-datagram requests through MainDevice must allocate and the N+1st must fail; MainDevice::release must free leaked slots."),
        level_note="Operation-granularity interleaving (no pre-emption inside calls: that is C02/C06). Trusts the harness' bookkeeping of which handles it holds.",
        rule="case = one operation history; non-trivial = contains at least one error/abandon/expiry path; distinct by hash of the operation sequence",
        assumptions=["abandonment exactly while TX is inside the buffer is the C06 window"],
        min_distinct=dict(quick=4000, thorough=300000),
        required_counters=["completed", "timed_out", "send_failures", "op.rx-duplicate", "op.rx-garbage", "op.rx-oversize", "op.drop-future", "op.drop-resolved-future", "op.drop-created", "probes", "resets", "alloc_refused_when_full"],
        runs=[
            native("hist-release", "c03", "release"),
            native("hist-debug", "c03", "debug", args={"scale-pct": dict(quick=30, thorough=10)}),
            native("hist-miri", "c03", "miri", args={"cases-total": dict(quick=320, thorough=8000), "case-offset": 1000000}, shards=16, timeout=dict(quick=7200, thorough=6 * 3600)),
        ],
    ),
    "C04": dict(
        level="exploration",
        engine="pduloop",
        technique="runtime monitoring with an independent reference encoder: the bytes handed to the send closure are compared with vh::wire's encoding of the accepted pushes; refused pushes must leave the frame untouched",
        level_text=("Every frame size 28..=1514 (runtime frame length hook) x random push programs over all 11 command kinds via raw enums and via the Command::* helpers (auto-increment negation), payloads 0..capacity+slack, length overrides below/equal/above, fill-the-rest 0..2*capacity, failing pushes in the middle, on re-used slots (stale-byte detection). "
                    "Byte equality with the independent encoder except the index byte; TooLong / cut counts exactly as computed from the frame size."),
        level_note="The reference encoder (harness/src/wire.rs) is written from ETG.1000.4 and is the trusted base; frames above 1514 bytes are not generated.",
        rule="case = (frame size, push program); non-trivial = at least 2 accepted datagrams or a push that lands exactly on / one past the capacity boundary; distinct by program hash",
        assumptions=["frame sizes above 2047+16 are outside the quantifier"],
        min_distinct=dict(quick=8000, thorough=400000),
        required_counters=["push.fits", "push.too_long", "rest.cut", "rest.all", "rest.none", "override.above", "override.below", "cmd.0", "cmd.1", "cmd.2", "cmd.4", "cmd.5", "cmd.7", "cmd.8", "cmd.10", "cmd.11", "cmd.12", "cmd.14"],
        runs=[
            native("enc-release", "c04", "release"),
            native("enc-debug", "c04", "debug", args={"scale-pct": dict(quick=30, thorough=5)}),
            native("enc-miri", "c04", "miri", args={"cases-total": dict(quick=32, thorough=480), "case-offset": 1000000}, shards=16, timeout=dict(quick=7200, thorough=6 * 3600)),
        ],
    ),

    "C06": dict(
        level="fault_enumeration",
        engine="pduloop",
        technique="runtime monitoring under virtual time: (1) complete enumeration of retry policy x lost-transmission subsets x late-poll placement with transmission count/byte-identity/result/time oracles; (2) baton-scheduled executions with a clock actor, where the deadline, the drop of the future, TX and RX are each forced at every yield-point index of a 1-slot victim+competitor scenario, plus seeded random schedules; monitors M-deadline, M-route for the competitor, M-excl, slot conservation",
        level_text=("Fault enumeration. Part 1 (c06d) enumerates every combination of RetryBehaviour None/Count(0..3)/Forever, every subset of the first four transmissions lost, response-received-before-the-deadline-is-examined yes/no and three timeouts: transmissions must be exactly 1+retries when all are lost, exactly k+1 when transmission k is answered, byte-identical, the result Timeout(Pdu) or the response (which wins over an expired deadline), resolved within (retries+2)*timeout of virtual time, Forever still retransmitting after 7 periods. "
                    "Part 2 runs victim tasks (deadlines 50-1000 us, retries 0..3/forever, 0-100 % loss, abandonment at any moment, early delivery) against a competitor task without deadline on 1-2 slots under the baton scheduler with a clock actor: half the cases are a systematic single-pre-emption sweep over the 115200-point space (switch to actor t at step i, i<160, t in TX/RX/clock/competitor/victim) x (1|2 requests) x (retries 0|1|2) x (all|no transmissions lost) x (abandon never|always) x (early delivery) x (sends ok | first send of every frame fails or is partial), visited through a bijection so that n cases are n distinct, evenly spread points (the thorough tier visits all of them), half seeded random/PCT schedules. The competitor must receive exactly its own responses, no window onto a buffer may overlap another party's, no slot may be re-initialised while TX/RX still holds a claim, retransmissions must be byte-identical and at most 1+retries, no panic, and all slots free at quiescence."),
        level_note="Virtual time: deadlines fire only when the clock actor is scheduled. The exact-count clause assumes TX services every sendable frame before the next deadline (true by construction in part 1, not assumed in part 2, which only checks the upper bound). async-io timers of the std build are not exercised.",
        rule="case = one execution (part 2: configuration + schedule, distinct by event-trace and schedule hash; non-trivial = interleaving on a slot or expiry/abandon/loss happened) or one enumerated tuple (part 1, all distinct); aux_distinct counts distinct slot-state vectors and distinct (step, actor) sweep points",
        assumptions=["virtual clock (embassy-time driver implemented by the harness)", "sequentially consistent interleavings"],
        min_distinct=dict(quick=6000, thorough=150000),
        required_counters=["enumeration_complete", "timed_out", "completed_with_response", "response_received_before_deadline_examined", "forever_still_retrying",
                           "cfg.systematic_single_preemption_sweep", "timeouts", "retransmissions", "wire_losses", "requests_abandoned", "forever_policy_observed_8_periods",
                           "transition.swap:Sending->Abandoned", "transition.swap:RxBusy->Abandoned", "transition.swap:Sent->Sendable", "site.PollTimerFired",
                           "send_failures", "transition.abandoned-freed-after-failed-send", "sweep_points_with_failing_first_send", "resolved_futures_dropped_late"],
        exhaustive_counter="enumeration_complete",
        exhaustive_note="part 1 (policy x lost-subset x late-poll x timeout) is enumerated completely on every run",
        runs=[
            native("deadline-enum-release", "c06d", "release", shards=2),
            native("deadline-enum-debug", "c06d", "debug", shards=2),
            native("sched-release", "c01", "release", args={"family": "c06", "scale-pct": dict(quick=600, thorough=200)}),
            native("sched-debug", "c01", "debug", args={"family": "c06", "scale-pct": dict(quick=40, thorough=10)}),
            # deadlines, retries and abandonment inside the TX/RX windows under Miri (virtual clock: hook commit c4c4ebaf)
            native("sched-miri", "c01", "miri", args={"family": "c06", "cases-total": dict(quick=16, thorough=320), "case-offset": 1000000}, shards=16, timeout=dict(quick=7200, thorough=6 * 3600)),
        ],
    ),

    "C19": dict(
        level="exploration",
        engine="wiregen",
        technique="runtime differential monitoring of generated programs: hundreds of generated #[derive(EtherCrabWire*)] definitions are compiled against /repo's derive and, for random values and buffers, pack/unpack/round-trip/short-buffer behaviour is compared with an independent bit-level reference packer driven by the same layout description (catch_unwind around every call)",
        level_text=("Each run generates 800+ (quick) / 4800 (thorough) struct and enum definitions obeying the macro's rules (1..12 fields, 1..64-bit widths, pre/post skips in bits and bytes, u8..u64/i8..i64/bool/enum/nested struct/array fields, enums with explicit and implicit discriminants, negative values, alternatives, catch-all, default), builds them against the derive in /repo, and checks >= 1200 random values/buffers per definition against a reference written from the layout only; plus the in-crate wire types reachable through public API. "
                    "Held = no mismatch, no panic, correct errors for short buffers/undefined enum values, on everything generated."),
        level_note="Definitions the macro rejects at compile time are bisected out and reported as inconclusive, never as violations. The reference packer (wiregen/template/reference.rs) is the trusted base. Two constructs the macro accepts but does not implement (signed sub-byte fields, integers declared narrower than their type) are known findings.",
        rule="case = (type definition, value or buffer); non-trivial = definition with >= 2 fields or a sub-byte field; distinct by hash of the definition text",
        assumptions=["generated definitions obey the derive macro's documented rules"],
        min_distinct=dict(quick=300, thorough=2000),
        required_counters=[],
        runs=[
            dict(name="wiregen", bin="wiregen/run.py", build="script", timeout=dict(quick=1500, thorough=3600)),
        ],
    ),

    "C09": dict(
        level="exploration",
        engine="simnet",
        technique="runtime monitoring against a simulated EtherCAT segment: the real MainDevice::init runs over PduTx/PduRx against software ESCs (registers, SII, AL state machine) generated from random device descriptions; the oracle compares the groups/SubDevice metadata ethercrab reports and the station-address/AL registers the simulated devices hold with the generating descriptions",
        level_text=("Seeded exploration of networks of 0..MAX+2 devices for MAX in {2,4,8,16}, random pre-existing station addresses (duplicates and collisions with the 0x1000 range forced), 4/8-byte SII reads, with/without names, mailboxes and DC, 1..3 groups chosen by the group filter. "
                    "Held = count, grouping, station address 0x1000+i in the device, identity/name/alias/DC capability of exactly device i, every device in PRE-OP, Err(Capacity) above capacity and Ok with empty groups for the empty network, on every generated network; no panic."),
        level_note="The simulator (harness/src/sim) is my reading of ETG.1000/ETG.2010 and is itself cross-checked by C12 (its SII builder against ethercrab's parser). The empty network is modelled as an echo with the U/L bit set (the only way ethercrab can see 0 devices); the unmodified echo ends in Timeout and is recorded, not judged.",
        rule="case = one generated network (descriptions + stale addresses + grouping); non-trivial = at least 2 devices, or over capacity, or empty; distinct by hash of the scenario",
        assumptions=["chain topology (trees are C17's subject)", "virtual time"],
        min_distinct=dict(quick=150, thorough=20000),
        required_counters=["init_ok", "empty_network_ok", "over_capacity_rejected", "devices.at-capacity", "device_name_fills_the_64_byte_capacity"],
        runs=[native("init-release", "c09", "release"), native("init-debug", "c09", "debug", args={"scale-pct": dict(quick=30, thorough=10)})],
    ),
    "C12": dict(
        level="exploration",
        engine="simnet",
        technique="runtime differential monitoring: SII images built by an independent ETG.2010 image builder from random device descriptions are read back through ethercrab's parser (cfg-gated probe, in-memory provider with 4/8-byte chunks) and, for a subset, end-to-end through the simulated SII register interface with the public eeprom_read_raw/eeprom_read/eeprom_size",
        level_text=("Per run thousands of images (0..50 strings incl. non-ASCII/NUL up to 255 bytes, 0..8 sync managers, 0..16 FMMUs, 0..64 PDOs with up to 40 entries, FMMU_EX, unknown vendor categories interleaved, shuffled category order, 128 B..16 KiB) x 80 random (start word, length) ranges each incl. odd lengths, buffers pre-filled with a canary. "
                    "Held = every returned byte equals the stored byte, nothing beyond the request touched, in-range requests return the full count, and identity/name/description/strings/mailbox/general/sync managers/FMMU usage/FMMU_EX/PDOs with bit lengths/size equal the generating description."),
        level_note="Names longer than the API's heapless capacity must yield StringTooLong (accepted). Images above 16 KiB are only covered by C13's robustness check, not by the equality oracle.",
        rule="case = one generated image; all are non-trivial (never blank); distinct by hash of the image bytes",
        assumptions=["well-formed images: string indices inside the table"],
        min_distinct=dict(quick=1500, thorough=150000),
        required_counters=["parsed.pdos", "parsed.sync_managers", "parsed.fmmu_ex", "parsed.string", "raw.odd_len", "raw.even_len", "chunk.4", "chunk.8", "e2e_raw_reads", "name_too_long_for_capacity"],
        runs=[native("sii-release", "c12", "release"), native("sii-debug", "c12", "debug", args={"scale-pct": dict(quick=25, thorough=5)}),
              # the parser's unsafe spots (set_len over not yet written bytes, from_utf8_unchecked) under Miri
              native("sii-miri", "c12", "miri", args={"cases-total": dict(quick=16, thorough=800), "case-offset": 1000000}, shards=16, timeout=dict(quick=7200, thorough=6 * 3600))],
    ),
    "C13": dict(
        level="exploration",
        engine="simnet",
        technique="runtime monitoring with catch_unwind and a provider-access budget around every EEPROM-derived query and around init+configuration on a simulated device carrying the image; the same binary is run as a debug build (overflow checks on) and as a release build (wrapping arithmetic)",
        level_text=("Tens of thousands of arbitrary, structured-then-mutated and adversarial images per run (random bytes, blank, all ones, category length 0xFFFF, wrap-to-self and wrap-to-earlier chains, chains whose next header lies at words 0xfffc..0xffff, string tables with count 0, size word >= 511, string index past the table, several 255x255-bit PDOs on one sync manager, truncated, lying string tables, no end marker, runs of empty categories), both chunk sizes, 25 queries each + full init/into_safe_op for 1 in 40. "
                    "Held = no panic and no query needing more than 70000 provider accesses (bounded walk), in both builds."),
        level_note="'Loop forever' is restated as exceeding 70000 provider accesses (more than one pass over the 64 Ki-word address space); a wall-clock watchdog firing is inconclusive, never a violation.",
        rule="case = one image; non-trivial = not all-zero/all-ones; distinct by content hash",
        assumptions=[],
        min_distinct=dict(quick=12000, thorough=800000),
        required_counters=["image.wrap-to-self", "image.wrap-to-earlier", "image.category-len-ffff", "image.size-word-large", "image.string-index-past-table", "image.pdo-255x255", "image.blank-zero", "image.blank-ones", "image.next-header-at-top-of-address-space", "image.string-table-count-zero", "image.pdo-sum-near-u16-max", "init_runs", "query.tx_pdos"],
        runs=[native("sii-fuzz-release", "c13", "release"), native("sii-fuzz-debug", "c13", "debug", args={"scale-pct": dict(quick=60, thorough=20)}),
              # hostile images through the same queries under Miri: an out-of-bounds index or an invalid str is a tool report
              native("sii-fuzz-miri", "c13", "miri", args={"cases-total": dict(quick=64, thorough=3200), "case-offset": 1000000, "no-init": dict(quick=1, thorough=0)}, shards=16, timeout=dict(quick=7200, thorough=6 * 3600))],
    ),
    "C14": dict(
        level="fault_enumeration",
        engine="simnet",
        technique="runtime monitoring against the simulated SII interface: EEPROM array diff before/after SubDevice::set_alias_address / eeprom_write_dangerously, independent CRC-8, SII write-command log (addresses, retries) with injected command errors and a busy-forever device",
        level_text=("quick: 2000 boundary-biased aliases; thorough: all 65536 alias values, each over random initial header words; generic writes of 1..64 bytes (odd and even) at category, end-of-EEPROM and random word addresses; devices answering 0,1,3,19,20,21,25 command errors or staying busy forever. "
                    "Held = only words 4 and 7 change, word 4 == alias, low byte of word 7 == CRC-8(poly 7, init 0xFF) of the first 14 bytes after the change, reported alias == new alias, generic writes store exactly the bytes (odd tail padded with 0) in exactly the expected words, at most 21 write commands per word, busy device ends in Timeout(Eeprom) in bounded virtual time."),
        level_note="The high byte of the checksum word is recorded, not judged.",
        rule="case = (alias or write payload, initial header, fault script); distinct by (case, alias, mode)",
        assumptions=[],
        min_distinct=dict(quick=1500, thorough=60000),
        required_counters=["mode.set_alias", "mode.generic_write", "generic.odd_len", "cmd_errors.21", "cmd_errors.25", "device_busy_forever"],
        exhaustive_counter="all_65536_aliases_partition_run",
        exhaustive_note="thorough tier: every one of the 65536 alias values is written once (alias = case number)",
        runs=[native("alias-release", "c14", "release"), native("alias-debug", "c14", "debug", args={"scale-pct": dict(quick=20, thorough=2)})],
    ),

    "C10": dict(
        level="fault_enumeration",
        engine="simnet",
        technique="runtime monitoring against simulated AL state machines with scripted reactions (accept after k status polls, refuse with a status code, stall, accept then fall back); oracle over the AL-control write log and the value each member's AL status register held at its last read, plus a reference evaluation of the TxRxResponse summaries",
        level_text=("Networks of 1..16 devices in 1..3 groups, frame sizes 58..1514 so that a status round needs 1..3+ frames; each member independently accepts after 0..5 polls, refuses (5 status codes), stalls or falls back later; transitions into_safe_op, into_op, into_init, into_pre_op, request_into_op. "
                    "Held = Ok only if every member's AL status at its last read was the requested state; any refusing/stalling member gives Err within state_transition+pdu timeout of virtual time; the requested state is written to every member and to no non-member; the per-cycle state list and all_op/group_in_single_state/is_in_state/group_state equal a reference evaluation over the reported states (alphabet None/INIT/PRE-OP/SAFE-OP/OP; BOOTSTRAP/other recorded only)."),
        level_note="'At the moment it was checked' is evaluated per device at its last status read. Polls, not wall time, drive the scripted devices.",
        rule="case = one scenario (network, grouping, transition, per-member reaction script); non-trivial = at least 2 devices or one non-accepting member; distinct by scenario hash",
        assumptions=["virtual time"],
        min_distinct=dict(quick=400, thorough=40000),
        required_counters=["transition_ok", "transition_err", "cycles", "summaries_judged", "path.into_op", "path.into_init", "path.request_into_op", "frame_len.58"],
        runs=[native("al-release", "c10", "release"), native("al-debug", "c10", "debug", args={"scale-pct": dict(quick=25, thorough=5)})],
    ),
    "C11": dict(
        level="fault_enumeration",
        engine="simnet",
        technique="runtime monitoring against the simulated wire's ground-truth working counter: every single-datagram public entry point x present/absent address x wire altering the counter x expected count 0..3; compound operations with the device unplugged at every step index, or missing exactly one frame at every step index",
        level_text=("Part A: receive/receive_slice/send_receive/send_receive_slice over FPRD/BRD/APRD/LRD/FPWR/BWR/APWR/LRW with default, with_wkc(0..3) and ignore_wkc, against 1..4 devices, absent stations/positions/logical addresses and a wire adding -1/+1/+2: Ok iff the counter the wire returned equals the expected one, otherwise exactly WorkingCounter{expected, received} with the wire's numbers. "
                    "Part B: register_read/write, status, eeprom_read_raw/eeprom_read, sdo_read/sdo_write, into_safe_op/into_op with the addressed device unplugged at a chosen frame of the operation (length measured by a clean run first): must be Err, never data or success. "
                    "Part C: the same operations while the addressed device misses exactly one frame (a transient dropout at every step index, the SII busy for 0..3 polls with the data register becoming valid only afterwards, other stale content left behind first): a missed datagram that hands device data back must make register/EEPROM accesses fail, and no operation may return anything but the true value; misses of fire-and-forget writes are recorded, not judged."),
        level_note="WrappedWrite::send and ignore_wkc callers are outside the quantifier (counted as opted out).",
        rule="case = (entry point, addressing, fault, expected count) or (operation, victim, unplug step); distinct by that tuple",
        assumptions=[],
        min_distinct=dict(quick=1500, thorough=150000),
        required_counters=["A.counter_matches", "A.counter_differs", "A.opted_out", "B.rejected", "B.op.sdo_read", "B.op.into_op", "B.op.eeprom_read_raw", "A.cmd.12", "A.cmd.10", "C.missed_read", "C.missed_write", "C.rejected", "C.op.eeprom_read_raw", "C.op.sdo_read"],
        runs=[native("wkc-release", "c11", "release"), native("wkc-debug", "c11", "debug", args={"scale-pct": dict(quick=25, thorough=5)})],
    ),
    "C08": dict(
        level="exploration",
        engine="simnet",
        technique="runtime monitoring with a functional oracle on the simulated devices' process RAM: after the real init + into_safe_op/into_op, distinct patterns are written to every device's outputs and input memory, one cycle runs, and RAM snapshots / group images are diffed; window geometry from the io_raw() slices; FMMU logical ranges read back from the simulated registers",
        level_text=("Networks of 1..16 devices with 0..8 PDOs per direction (entries 1..64 bits), one to three sync managers per direction whose buffers lie back to back, apart, or in any physical order (incl. a directed family where a later sync manager's buffer starts exactly where an earlier, non-neighbouring one of the same direction ends), EEPROM and CoE configuration paths, with/without FMMU_EX and oversampling, 1..3 groups, MAX_PDI 32/128/1024. "
                    "Held = windows inside the image, inputs before outputs, disjoint, byte length == what the PDO configuration (x oversampling) needs; outputs arrive in exactly that device's output sync-manager memory and nowhere else, input memory appears in exactly that device's inputs; groups' logical ranges disjoint; a layout exceeding MAX_PDI gives Err(PdiTooLong). The simulated application refuses SAFE-OP when a sync manager length contradicts the PDO mapping."),
        level_note="The simulator implements all 16 FMMUs/SMs whatever the EEPROM advertises, so which FMMU index is picked is not judged, only that the mapping works. After a group was (rightly) refused with PdiTooLong, what other groups observe is not judged.",
        rule="case = one network scenario; non-trivial = at least 2 devices or any process data; distinct by scenario hash",
        assumptions=["MAX_PDI below 64 KiB"],
        min_distinct=dict(quick=200, thorough=20000),
        required_counters=["device.coe", "device.eeprom", "device.coe+multi-sm", "device.eeprom+multi-sm", "device.eeprom+fmmu_ex", "device.three-sms-one-direction", "device.sm-buffers-not-in-index-order", "device.sm-adjacent-to-non-neighbour", "device.sii-sync-manager-types-unknown", "group.does-not-fit-only-once-outputs-are-counted", "pdi_too_long_rejected", "windows", "groups_checked"],
        runs=[native("map-release", "c08", "release"), native("map-debug", "c08", "debug", args={"scale-pct": dict(quick=20, thorough=5)})],
    ),

    "C07": dict(
        level="exploration",
        engine="simnet",
        technique="runtime monitoring of the simulated wire during exactly one tx_rx / tx_rx_sync_system_time / tx_rx_dc call: the LRW datagrams must tile the group's logical window, the DC datagram must be first and unique, image/working counter/state list are compared with what the simulated devices hold and answered; a deterministic lock turns a self-deadlock into an observable event",
        level_text=("Groups built by the real init on simulated devices whose PDO sizes give the wanted (inputs, outputs) split: image 0..2048 bytes incl. 1486/1487/1500 around the single-frame limit, splits {0, 1, mid, all}, 0..64 devices, frame sizes 50..1514 chosen around every boundary where image, DC datagram and state checks meet the frame end (+-2 bytes), all three cycle variants, random image and device answers; in half of the cycles the segment returns other bytes than were sent in every byte of the logical datagrams that no device supplied (the outputs); in a fifth of the cycles one SubDevice services nothing (its status read comes back unanswered and must still have its entry). "
                    "Held = contiguous tiling without gap/overlap, every datagram fits the frame, exactly one FRMW(ref, 0x0910, 8) first in DC variants with the returned time equal to the reference clock's answer, inputs == network answer, outputs unchanged and == bytes on the wire, working counter == sum over LRW datagrams, one state entry per SubDevice in group order, frame count within the packing bound, and the call returns (no self-deadlock, no hang)."),
        level_note="Frame sizes below 50 bytes cannot carry ethercrab's own init traffic and are therefore not reachable. The frame-count bound is the greedy packer's upper bound, no tighter claim.",
        rule="case = (image length, split, devices, frame size, variant); non-trivial = at least 2 frames or a non-empty image; distinct by scenario hash",
        assumptions=[],
        min_distinct=dict(quick=300, thorough=30000),
        required_counters=["multi_frame_cycles", "cycles_with_foreign_bytes_in_unread_answer", "cycles_with_a_silent_subdevice", "variant.tx_rx", "variant.tx_rx_sync_system_time", "variant.tx_rx_dc", "frames"],
        runs=[native("cycle-release", "c07", "release"), native("cycle-debug", "c07", "debug", args={"scale-pct": dict(quick=15, thorough=3)})],
    ),

    "C15": dict(
        level="exploration",
        engine="simnet",
        technique="runtime monitoring against a simulated CoE server with an object dictionary (ETG.1000.6 5.6.2): sdo_read/sdo_write/sdo_read_array/sdo_write_array results are compared with the dictionary, the device-side log of downloads and the mailbox counters the device saw",
        level_text=("Sessions of 3..10 operations on one device: uploads of objects of 0..512 bytes into destinations of 1..512 bytes (equal, larger, smaller) over read mailboxes of 16..1024 bytes in expedited, normal, forced-normal and segmented mode with chosen initiate/segment payload lengths (incl. 1..6 byte last segments), typed destinations u8/u16/u32/u64/[u16;4]/String<10>, expedited downloads of 1..4 bytes, every listed abort code for reads and writes, emergency messages, answers for a different object, array helpers, stale content in the out-mailbox. "
                    "Held = exact bytes, TooLong for oversize normal/segmented objects, Aborted with the device's code and object, Emergency with code/register, SdoResponseInvalid for foreign answers, exactly one download with the right index/sub-index/bytes, counters cycling 1..7."),
        level_note="The CoE server follows ETG.1000.6 (the initiate response of a segmented upload carries the first mailbox-16 bytes; upload segment responses have command specifier 0). Downloads above 4 bytes are refused by ethercrab (documented) and not generated.",
        rule="case = one session (mailbox sizes + operation list + data); all non-trivial; distinct by scenario hash",
        assumptions=[],
        min_distinct=dict(quick=300, thorough=30000),
        required_counters=["op.read:expedited", "op.read:normal", "op.read:segmented", "op.write", "op.abort", "op.emergency", "op.wrong-object", "op.read-array", "op.write-array", "op.stale-out-mailbox", "read_mbx.16"],
        runs=[native("coe-release", "c15", "release"), native("coe-debug", "c15", "debug", args={"scale-pct": dict(quick=30, thorough=5)}),
              native("coe-miri", "c15", "miri", args={"cases-total": dict(quick=16, thorough=32), "case-offset": 1000000}, shards=16, timeout=dict(quick=7200, thorough=6 * 3600), tiers=('thorough',))],
    ),
    "C16": dict(
        level="exploration",
        engine="simnet",
        technique="runtime monitoring with catch_unwind, a bound on mailbox reads / virtual time, and a non-interference (two-run canary) monitor for out-of-bounds reads, around every SDO / SDO-info entry point against a device whose mailbox is a byte script; debug and release builds; big-stack worker threads so that a stack overflow cannot pass as a verdict",
        level_text=("Thousands of scripted replies per run: expedited/normal/segmented-initiate/segment/abort/emergency/SDO-info/download responses and random bytes, then field-mutated (mailbox length over its full range and at edges, type nibble, counter, CoE service, command bits, object, complete size, truncation at every length, random byte), read mailboxes of 6..1024 bytes, 1..3 replies cycled, plus a directed family in which a valid segmented-upload initiate response is followed by upload-segment responses with every kind of length / unused-bytes / toggle / last-flag value, optionally refilled forever, for sdo_read (u32 and [u8;64]), sdo_write, sdo_info_object_description_list and sdo_info_object_quantities. "
                    "Held = no panic, no abort, the call ends within 70000 mailbox reads, and the outcome does not depend on canary bytes placed in stale frame slot contents."),
        level_note="'Ends' is restated as: returns within 70000 mailbox reads (the protocol's fragment counter is 16 bit). Bytes of the mailbox buffer beyond the scripted message belong to the datagram ethercrab asked for and are kept identical in both canary runs.",
        rule="case = (entry point, mailbox size, scripted replies); distinct by scenario hash",
        assumptions=[],
        min_distinct=dict(quick=2000, thorough=200000),
        required_counters=["entry.sdo_read_u32", "entry.sdo_write", "entry.sdo_info_list", "entry.sdo_info_quantities", "reply.mutated", "reply.emergency", "reply.segment", "reply.segmented-initiate-valid", "reply.segment-in-session", "family.sdo-info-tiny-mailbox", "device_refills_forever", "outcome.value", "outcome.error"],
        runs=[native("mbx-release", "c16", "release"), native("mbx-debug", "c16", "debug", args={"scale-pct": dict(quick=40, thorough=10)}),
              native("mbx-miri", "c16", "miri", args={"cases-total": dict(quick=16, thorough=32), "case-offset": 1000000}, shards=16, timeout=dict(quick=7200, thorough=6 * 3600), tiers=('thorough',))],
    ),

    "C17": dict(
        level="exploration",
        engine="simnet",
        technique="runtime monitoring against a ground-truth physical model: port receive times are computed by walking the frame's path through a generated tree with symmetric link delays and per-device clock offsets; after the real init the registers 0x0920/0x0928, propagation_delay(), the parent index (cfg-gated accessor) and the FRMW target are compared with the tree; a hostile family feeds arbitrary DL-status / port-time reports under catch_unwind",
        level_text=("Random trees of 1..24 devices (chains, forks, crosses, nested branches on ports 3/1/2), link delays 10..2000 ns, mixed DC/non-DC devices, 32/64-bit clocks, clock offsets placed so that the 32 bit port times straddle the counter wrap while the frame is inside the device, master time over all of u64. "
                    "Held = delay non-decreasing in ring order over DC devices and programmed into 0x0928, exact sum of link delays on all-DC chains, parent == true upstream neighbour, offset == master time - latched receive time (mod 2^64), non-DC devices untouched, FRMW reference == first DC device; arbitrary DL status / scrambled port times give an error or a value, never a panic or hang."),
        level_note="Exact delays are claimed on pure all-DC chains only (as the property states); forwarding delay is folded into the link delay so that 'symmetric' is exact.",
        rule="case = one generated tree (or hostile report set); non-trivial = at least 2 devices; distinct by scenario hash",
        assumptions=["frames enter every device on port 0"],
        min_distinct=dict(quick=1000, thorough=100000),
        required_counters=["tree.chain", "tree.branched", "tree.near_32bit_wrap", "exact_chain_checks", "hostile_reports", "networks_with_dc"],
        runs=[native("topo-release", "c17", "release"), native("topo-debug", "c17", "debug", args={"scale-pct": dict(quick=30, thorough=5)})],
    ),
    "C18": dict(
        level="exploration",
        engine="simnet",
        technique="runtime monitoring of the simulated DC registers (write log of 0x0981/0x0990/0x09A0/0x09A4 per device) around configure_dc_sync and of CycleInfo returned by tx_rx_dc while the simulated reference clock answers chosen 64 bit times; debug and release builds",
        level_text=("Groups of 1..8 devices with every mix of DC support (none/ref-only/32/64 bit) and DcSync (disabled/SYNC0/SYNC0+1), periods, start delays and shifts from {1, 2, u32::MAX-1, u32::MAX, u32::MAX+1, random}, set-up reference times and 6 per-cycle reference times per case from {0, P-1, P, 2^32+-1, 2^63+-1, u64::MAX(-1), random}. "
                    "Held = only devices that support DC and asked for it are written; start time is a multiple of the period in (ref+delay-period, ref+delay]; cycle times and activation flags per mode; period/delay above 32 bit and a network without reference are rejected; per cycle offset == t mod P and wait == (P - offset) + shift, no panic."),
        level_note="When reference time + start delay exceeds u64 the interval of the statement is not representable; such set-ups are recorded as observations, not judged. SYNC1 periods are kept within 32 bit.",
        rule="case = (support/mode mix, period, delay, shift, reference times); distinct by scenario hash",
        assumptions=[],
        min_distinct=dict(quick=1000, thorough=100000),
        required_counters=["setup_ok", "over_32bit_rejected", "no_reference_rejected", "cycles"],
        runs=[native("dcsync-release", "c18", "release"), native("dcsync-debug", "c18", "debug", args={"scale-pct": dict(quick=30, thorough=5)})],
    ),
    "C20": dict(
        level="exploration",
        engine="simnet",
        technique="runtime monitoring with a sequential oracle: every scenario is executed twice from identically built simulated segments - tasks interleaved by a seeded executor at every await with per-frame latencies 0..500 us delivered in any order, and each task alone - and the per-task result sequences and the device-side end state are compared; the same comparison with one OS thread per task under ThreadSanitizer and Miri, where a tool report is a violation",
        level_text=("2..4 cooperative tasks (process-data cycles of different groups with per-task output patterns, register write/read/status on private RAM areas, SDO reads (expedited, normal, and - in a quarter of the scenarios - 1 KiB segmented uploads through 32 byte mailboxes that keep their first response held while the other tasks use several hundred datagram indices, i.e. across the wrap of the 8 bit index) and writes on distinct devices) over 2..8 devices in 2..3 groups, storage of 4 (just enough: at most 3 single-frame requests in flight), 8 or 16 slots, latency profiles 0, 0..50, 0..500, 100..500 us with reordering. "
                    "Held = identical result sequences per task, no operation failing only when shared, identical output memory and download logs on the devices."),
        level_note="The seeded cooperative executor gives replayable interleavings at every await; true parallelism (one OS thread per task, the network on another, PDU-loop hooks injecting yields) runs the same scenarios and the same sequential oracle under ThreadSanitizer (both tiers) and Miri (thorough), with timeouts made effectively infinite so that a descheduled thread cannot look like a silent device. Tasks never touch a group's image while that group's cycle is in flight (the documented lock contract).",
        rule="case = one scenario (network, task set, storage size, latency profile, executor seed); distinct by scenario hash",
        assumptions=["operations of different tasks commute (different groups / devices / RAM areas)"],
        min_distinct=dict(quick=300, thorough=30000),
        required_counters=["task.cycle", "task.register", "task.sdo", "task.sdo-long-segmented", "slots.4", "slots.8", "frames_interleaved", "threads.cases", "threads.hook_hits"],
        runs=[native("tasks-release", "c20", "release"), native("tasks-debug", "c20", "debug", args={"scale-pct": dict(quick=20, thorough=5)}),
              # real parallelism: one OS thread per task + a network/clock thread on one MainDevice, same sequential oracle,
              # under ThreadSanitizer (a report is a violation) ...
              native("threads-tsan", "c20", "tsan", args={"threads": 1}, shards=dict(quick=8, thorough=16)),
              # ... and, tiny, under Miri's data-race detector / Stacked Borrows (a simulated init costs minutes there)
              native("threads-miri", "c20", "miri", args={"threads": 1, "cases-total": dict(quick=16, thorough=32), "case-offset": 1000000}, shards=16, timeout=dict(quick=7200, thorough=6 * 3600), tiers=('thorough',))],
    ),
}

# Sanitizer variants are part of the deciding technique: say so in every check that has one.
for _pid, _c in PROPS.items():
    _kinds = {r["build"] for r in _c["runs"]}
    _extra = []
    if "miri" in _kinds and "Miri" not in _c["technique"]:
        _extra.append("the same workload (other cases) under Miri — undefined behaviour, Stacked Borrows and data-race interpreter — where a tool report is a violation")
    if "tsan" in _kinds and "ThreadSanitizer" not in _c["technique"]:
        _extra.append("a free-running multi-thread variant under ThreadSanitizer")
    if _extra:
        _c["technique"] += "; " + "; ".join(_extra)
