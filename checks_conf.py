"""Per-property run configuration for ./check (what to build, how many shards, floors)."""

def native(name, bin, build="release", **kw):
    d = dict(name=name, bin=bin, build=build)
    d.update(kw)
    return d

PROPS = {
    "C05": dict(
        level="exploration",
        engine="pduloop",
        technique="runtime monitoring: before/after slot snapshots around every PduRx::receive_frame call on generated hostile inputs (catch_unwind + state/buffer diff oracle), debug and release builds",
        level_text=("Seeded exploration: the real receive path is fed tens of thousands (quick) to millions (thorough) of truncated, oversized, "
                    "field-swept, foreign, echoed, duplicated and random frames in every slot-state combination a single thread can hold over 1/2/4 slots; "
                    "a monitor diffs all slots around each call. Held = no panic, no side effect of a non-accepted frame, accepted frames only into the awaiting slot, on everything generated."),
        level_note="Trusts the cfg-gated slot inspector and the harness' independent frame reading; only sampled inputs are judged; concurrent RX/app interleavings are C01/C02/C06.",
        rule=("case = (slot-state vector reached by a prefix script over 1/2/4 slots, hostile input class, mutated field value); "
              "non-trivial = the input is not byte-identical to the genuine response; distinct by hash of that triple"),
        assumptions=[
            "slot snapshots are taken through the cfg(ethercrab_verif) inspector while no other thread runs",
            "RxBusy cannot be held from outside receive_frame in a single thread, so it is not in the prefix alphabet (C06 covers it)",
        ],
        min_distinct=dict(quick=20000, thorough=500000),
        required_counters=["accepted", "input.oversize", "input.truncate", "input.own-echo", "input.index-of-non-awaiting",
                           "prefix_state.Sent", "prefix_state.RxDone", "prefix_state.RxProcessing", "prefix_state.Sending"],
        runs=[
            native("rx-release", "c05", "release"),
            native("rx-debug", "c05", "debug", args={"scale-pct": dict(quick=25, thorough=10)}),
        ],
    ),

    "C01": dict(
        level="exploration",
        engine="pduloop",
        technique="runtime monitoring under a deterministic baton scheduler: every shared-state access of the PDU loop is a cfg-gated yield point; tagged requests + keyed wire responses give an unambiguous history; M-route/M-view oracles at the API boundary",
        level_text=("Seeded exploration of interleavings (random, PCT priorities, chosen pre-emption points) of 1-3 application tasks, TX and RX over 1/2/4/8 slots with in-order, reversed, random and duplicated response delivery. "
                    "Every request carries a unique tag; the wire answers with a keyed function of the tag, so a completion with anything but its own bytes/working counter, a delivered response whose request never completes (scheduler detects that nobody is left to wake the caller), "
                    "a view that shows bytes outside its data area after any front trim, or a held view whose bytes change while other requests run, is decided without search. Held = none of these on the executions produced."),
        level_note="Sequentially consistent interleavings only (weak-memory effects are left to the Miri/TSan runs of C02); sampled schedules, not all; the <256-indices-in-flight assumption is respected by construction; views produced by the crate-internal iterator are judged only while the iterator (which owns the frame) is alive.",
        rule=("case = one execution (configuration + schedule); non-trivial = at least two actors interleaved on one slot or a reorder/duplicate/abandon happened; distinct by hash of the full hook-event trace and of the schedule"),
        assumptions=["fewer than 256 datagram indices are allocated while a request is outstanding", "no deadline expires for observed requests (timeout = 100000 s of virtual time)", "the baton serialises actors: only sequentially consistent interleavings"],
        min_distinct=dict(quick=10000, thorough=300000),
        required_counters=["requests_completed", "responses_reordered", "responses_duplicated", "views_held_across_requests", "front_trims", "cfg.index_wrap_family",
                           "site.RxFound", "site.WakerTake", "site.PollBegin", "transition.swap:RxBusy->RxDone", "transition.swap:RxDone->RxProcessing"],
        runs=[
            native("sched-release", "c01", "release", args={"family": "c01", "scale-pct": dict(quick=500, thorough=200)}),
            native("sched-debug", "c01", "debug", args={"family": "c01", "scale-pct": dict(quick=60, thorough=10)}),
        ],
    ),
    "C02": dict(
        level="exploration",
        engine="pduloop",
        technique="runtime monitoring under the baton scheduler: shadow lifecycle state per slot fed by state-change hooks (transition relation), buffer access windows (builder/TX/RX/reader) and ownership generations checked on every event",
        level_text=("Seeded + systematic (all single/double pre-emption placements over the first ~260 steps of small 1-2 slot configurations) exploration of interleavings with send failures (error/partial), duplicate and late responses and abandonment in every non-inside state. "
                    "Monitors: every observed state change must be in the documented lifecycle relation; a window onto a slot's buffer may not open while another party's window is open; a slot may not be re-initialised while any handle of the previous request (created frame, future, TX/RX claim, received frame, view) is alive. Held = no such event on the executions produced."),
        level_note="Exact because the baton serialises actors (shadow state == real state, asserted). Weak-memory-only races are outside the baton's reach; the Miri and ThreadSanitizer runs of the free-running variant cover what they can.",
        rule="case = one execution; non-trivial and distinct as for C01 (hash of event trace + schedule); aux_distinct = distinct slot-state vectors observed",
        assumptions=["abandonment only while neither TX nor RX is inside the slot (C06 covers the rest)", "sequentially consistent interleavings"],
        min_distinct=dict(quick=10000, thorough=300000),
        required_counters=["send_failures", "requests_abandoned", "responses_duplicated", "access_windows", "transition.swap:Sending->Sendable", "transition.swap:Sent->None", "transition.swap:Created->None", "cfg.policy.preempt-at"],
        runs=[
            native("sched-release", "c01", "release", args={"family": "c02", "scale-pct": dict(quick=500, thorough=200)}),
            native("sched-debug", "c01", "debug", args={"family": "c02", "scale-pct": dict(quick=60, thorough=10)}),
        ],
    ),
    "C03": dict(
        level="exploration",
        engine="pduloop",
        technique="runtime monitoring of operation histories: conservation invariant (slots not free == live owning handles) checked through the slot inspector after every operation, plus a drain-and-reallocate probe through MainDevice and a reset probe",
        level_text=("Random operation histories (depth <= 40) over 1/2/4 slots mixing round trips, refused pushes, send errors and partial sends, lost/duplicate/garbage/oversized responses, expiry with 0-3 retries or forever under virtual time, drops of every handle kind and reset. "
                    "After each operation the number of non-free slots must equal the number of live handles that own one; an allocation may fail only when all N are owned; after the history N single-datagram requests through MainDevice must allocate and the N+1st must fail; MainDevice::release must free leaked slots."),
        level_note="Operation-granularity interleaving (no pre-emption inside calls: that is C02/C06). Trusts the harness' bookkeeping of which handles it holds.",
        rule="case = one operation history; non-trivial = contains at least one error/abandon/expiry path; distinct by hash of the operation sequence",
        assumptions=["abandonment exactly while TX is inside the buffer is the C06 window"],
        min_distinct=dict(quick=4000, thorough=300000),
        required_counters=["completed", "timed_out", "send_failures", "op.rx-duplicate", "op.rx-garbage", "op.rx-oversize", "op.drop-future", "op.drop-created", "probes", "resets", "alloc_refused_when_full"],
        runs=[
            native("hist-release", "c03", "release"),
            native("hist-debug", "c03", "debug", args={"scale-pct": dict(quick=30, thorough=10)}),
        ],
    ),
    "C04": dict(
        level="exploration",
        engine="pduloop",
        technique="runtime monitoring with an independent reference encoder: the bytes handed to the send closure are compared with vh::wire's encoding of the accepted pushes; refused pushes must leave the frame untouched",
        level_text=("Every frame size 28..=1514 (runtime frame length hook) x random push programs over all 11 command kinds via raw enums and via the Command::* helpers (auto-increment negation), payloads 0..capacity+slack, length overrides below/equal/above, fill-the-rest 0..2*capacity, failing pushes in the middle, on re-used slots (stale-byte detection). "
                    "Byte equality with the independent encoder except the index byte; TooLong / cut counts exactly as computed from the frame size."),
        level_note="The reference encoder (harness/src/wire.rs) is written from ETG.1000.4 and is the trusted base; frames above 1514 bytes are not generated.",
        rule="case = (frame size, push program); non-trivial = at least 2 accepted datagrams or a push that lands exactly on / one past the capacity boundary; distinct by program hash",
        assumptions=["frame sizes above 2047+16 are outside the quantifier"],
        min_distinct=dict(quick=8000, thorough=400000),
        required_counters=["push.fits", "push.too_long", "rest.cut", "rest.all", "rest.none", "override.above", "override.below", "cmd.0", "cmd.1", "cmd.2", "cmd.4", "cmd.5", "cmd.7", "cmd.8", "cmd.10", "cmd.11", "cmd.12", "cmd.14"],
        runs=[
            native("enc-release", "c04", "release"),
            native("enc-debug", "c04", "debug", args={"scale-pct": dict(quick=30, thorough=5)}),
        ],
    ),

    "C06": dict(
        level="fault_enumeration",
        engine="pduloop",
        technique="runtime monitoring under virtual time: (1) complete enumeration of retry policy x lost-transmission subsets x late-poll placement with transmission count/byte-identity/result/time oracles; (2) baton-scheduled executions with a clock actor, where the deadline, the drop of the future, TX and RX are each forced at every yield-point index of a 1-slot victim+competitor scenario, plus seeded random schedules; monitors M-deadline, M-route for the competitor, M-excl, slot conservation",
        level_text=("Fault enumeration. Part 1 (c06d) enumerates every combination of RetryBehaviour None/Count(0..3)/Forever, every subset of the first four transmissions lost, response-received-before-the-deadline-is-examined yes/no and three timeouts: transmissions must be exactly 1+retries when all are lost, exactly k+1 when transmission k is answered, byte-identical, the result Timeout(Pdu) or the response (which wins over an expired deadline), resolved within (retries+2)*timeout of virtual time, Forever still retransmitting after 7 periods. "
                    "Part 2 runs victim tasks (deadlines 50-1000 us, retries 0..3/forever, 0-100 % loss, abandonment at any moment, early delivery) against a competitor task without deadline on 1-2 slots under the baton scheduler with a clock actor: half the cases are a systematic single-pre-emption sweep (switch to actor t at step i for all i<160, t in TX/RX/clock/competitor/victim, everything else deterministic), half seeded random/PCT schedules. The competitor must receive exactly its own responses, no window onto a buffer may overlap another party's, no slot may be re-initialised while TX/RX still holds a claim, retransmissions must be byte-identical and at most 1+retries, no panic, and all slots free at quiescence."),
        level_note="Virtual time: deadlines fire only when the clock actor is scheduled. The exact-count clause assumes TX services every sendable frame before the next deadline (true by construction in part 1, not assumed in part 2, which only checks the upper bound). async-io timers of the std build are not exercised.",
        rule="case = one execution (part 2: configuration + schedule, distinct by event-trace and schedule hash; non-trivial = interleaving on a slot or expiry/abandon/loss happened) or one enumerated tuple (part 1, all distinct); aux_distinct counts distinct slot-state vectors and distinct (step, actor) sweep points",
        assumptions=["virtual clock (embassy-time driver implemented by the harness)", "sequentially consistent interleavings"],
        min_distinct=dict(quick=6000, thorough=150000),
        required_counters=["enumeration_complete", "timed_out", "completed_with_response", "response_received_before_deadline_examined", "forever_still_retrying",
                           "cfg.systematic_single_preemption_sweep", "timeouts", "retransmissions", "wire_losses", "requests_abandoned", "forever_policy_observed_8_periods",
                           "transition.swap:Sending->Abandoned", "transition.swap:RxBusy->Abandoned", "transition.swap:Sent->Sendable", "site.PollTimerFired"],
        exhaustive_counter="enumeration_complete",
        exhaustive_note="part 1 (policy x lost-subset x late-poll x timeout) is enumerated completely on every run",
        runs=[
            native("deadline-enum-release", "c06d", "release", shards=2),
            native("deadline-enum-debug", "c06d", "debug", shards=2),
            native("sched-release", "c01", "release", args={"family": "c06", "scale-pct": dict(quick=600, thorough=200)}),
            native("sched-debug", "c01", "debug", args={"family": "c06", "scale-pct": dict(quick=40, thorough=10)}),
        ],
    ),

    "C19": dict(
        level="exploration",
        engine="wiregen",
        technique="runtime differential monitoring of generated programs: hundreds of generated #[derive(EtherCrabWire*)] definitions are compiled against /repo's derive and, for random values and buffers, pack/unpack/round-trip/short-buffer behaviour is compared with an independent bit-level reference packer driven by the same layout description (catch_unwind around every call)",
        level_text=("Each run generates 800+ (quick) / 4800 (thorough) struct and enum definitions obeying the macro's rules (1..12 fields, 1..64-bit widths, pre/post skips in bits and bytes, u8..u64/i8..i64/bool/enum/nested struct/array fields, enums with explicit and implicit discriminants, negative values, alternatives, catch-all, default), builds them against the derive in /repo, and checks >= 1200 random values/buffers per definition against a reference written from the layout only; plus the in-crate wire types reachable through public API. "
                    "Held = no mismatch, no panic, correct errors for short buffers/undefined enum values, on everything generated."),
        level_note="Definitions the macro rejects at compile time are bisected out and reported as inconclusive, never as violations. The reference packer (wiregen/template/reference.rs) is the trusted base. Two constructs the macro accepts but does not implement (signed sub-byte fields, integers declared narrower than their type) are known findings.",
        rule="case = (type definition, value or buffer); non-trivial = definition with >= 2 fields or a sub-byte field; distinct by hash of the definition text",
        assumptions=["generated definitions obey the derive macro's documented rules"],
        min_distinct=dict(quick=300, thorough=2000),
        required_counters=[],
        runs=[
            dict(name="wiregen", bin="wiregen/run.py", build="script", timeout=dict(quick=1500, thorough=3600)),
        ],
    ),
}
