//! Deterministic actor scheduler ("baton") over the cfg-gated yield points of the PDU loop.
//!
//! Every actor (application task, TX side, RX side, clock) runs on its own OS thread, but only the
//! holder of the baton executes. At every hook inside ethercrab and at every explicit
//! `Ctx::yield_now`, the scheduler records the event, lets the monitor look at it and picks who
//! runs next from a seeded policy. The list of picks is the schedule: it is recorded, hashed for
//! the "distinct schedules" evidence counter and can be replayed.

use crate::prng::{Rng, fnv_mix};
use ethercrab::verif::Site;
use std::cell::RefCell;
use std::sync::atomic::{AtomicBool, Ordering};
use std::sync::{Arc, Condvar, Mutex};
use std::task::{Wake, Waker};

#[derive(Clone, Debug)]
pub enum Policy {
    /// Uniformly random among runnable actors, staying on the current one with `stay_pct` %.
    Random { stay_pct: u64 },
    /// PCT-style: random static priorities, `changes` random priority change points.
    Pct { changes: usize, horizon: u64 },
    /// Run the current actor until it blocks, except pre-empt (switch to a random other runnable
    /// actor) at the given global step numbers. Used for systematic pre-emption sweeps.
    PreemptAt { steps: Vec<u64>, to: Vec<usize>, lowest_first: bool },
}

#[derive(Clone, Copy, Debug, PartialEq, Eq)]
enum St {
    NotStarted,
    Runnable,
    Blocked,
    Done,
}

#[derive(Clone, Debug)]
pub struct Event {
    pub step: u64,
    pub actor: usize,
    pub site: Site,
    pub addr: usize,
    pub a: u8,
    pub b: u8,
}

/// What monitors implement. Called with the baton held (fully serialised).
pub trait Monitor: Send {
    fn on_event(&mut self, ev: &Event);
}

pub struct Inner<M> {
    st: Vec<St>,
    woken: Vec<bool>,
    names: Vec<String>,
    current: Option<usize>,
    rng: Rng,
    policy: Policy,
    prio: Vec<u64>,
    change_points: Vec<u64>,
    pub step: u64,
    pub max_steps: u64,
    pub over_budget: bool,
    pub stuck: bool,
    pub sched_hash: u64,
    pub switches: u64,
    pub mon: M,
    no_yield: Vec<u32>,
    finished: bool,
    replay: Option<Vec<u8>>,
    pub choices: Vec<u8>,
    record_choices: bool,
}

pub struct Sched<M> {
    m: Mutex<Inner<M>>,
    cv: Condvar,
    free_running: AtomicBool,
}

pub trait HookSink: Send + Sync {
    fn hook(&self, actor: usize, site: Site, addr: usize, a: u8, b: u8);
}

thread_local! {
    static CUR: RefCell<Option<(Arc<dyn HookSink>, usize)>> = const { RefCell::new(None) };
}

fn global_hook(site: Site, addr: usize, a: u8, b: u8) {
    let cur = CUR.with(|c| c.borrow().clone());
    if let Some((sink, id)) = cur {
        sink.hook(id, site, addr, a, b);
    }
}

/// Install the process-wide dispatcher into ethercrab's hook slot (idempotent).
pub fn install_global_hook() {
    ethercrab::verif::set_hook(Some(global_hook));
}

impl<M: Monitor + 'static> HookSink for Sched<M> {
    fn hook(&self, actor: usize, site: Site, addr: usize, a: u8, b: u8) {
        if self.free_running.load(Ordering::Relaxed) {
            return;
        }
        let mut g = self.m.lock().unwrap_or_else(|e| e.into_inner());
        g.step += 1;
        let ev = Event { step: g.step, actor, site, addr, a, b };
        g.mon.on_event(&ev);
        if g.no_yield[actor] > 0 {
            return;
        }
        self.switch(g, actor, false);
    }
}

pub struct Ctx<M> {
    pub sched: Arc<Sched<M>>,
    pub id: usize,
}

struct ActorWaker<M> {
    sched: Arc<Sched<M>>,
    id: usize,
}

impl<M: Monitor + 'static> Wake for ActorWaker<M> {
    fn wake(self: Arc<Self>) {
        self.sched.wake(self.id);
    }
    fn wake_by_ref(self: &Arc<Self>) {
        self.sched.wake(self.id);
    }
}

#[derive(Debug, PartialEq, Eq, Clone, Copy)]
pub enum Blocked {
    Woken,
    /// Nobody can ever wake this actor: every other actor is blocked or done.
    Stuck,
}

impl<M: Monitor + 'static> Sched<M> {
    pub fn new(names: &[&str], seed: u64, policy: Policy, max_steps: u64, mon: M) -> Arc<Self> {
        let n = names.len();
        let mut rng = Rng::new(seed);
        let prio: Vec<u64> = (0..n).map(|_| rng.u64() | (1 << 63)).collect();
        let change_points = match &policy {
            Policy::Pct { changes, horizon } => (0..*changes).map(|_| rng.below(*horizon)).collect(),
            _ => vec![],
        };
        Arc::new(Sched {
            m: Mutex::new(Inner {
                st: vec![St::NotStarted; n],
                woken: vec![false; n],
                names: names.iter().map(|s| s.to_string()).collect(),
                current: None,
                rng,
                policy,
                prio,
                change_points,
                step: 0,
                max_steps,
                over_budget: false,
                stuck: false,
                sched_hash: 0xcbf29ce484222325,
                switches: 0,
                mon,
                no_yield: vec![0; n],
                finished: false,
                replay: None,
                choices: vec![],
                record_choices: false,
            }),
            cv: Condvar::new(),
            free_running: AtomicBool::new(false),
        })
    }

    pub fn set_replay(&self, choices: Vec<u8>) {
        self.m.lock().unwrap_or_else(|e| e.into_inner()).replay = Some(choices);
    }

    pub fn record_choices(&self) {
        self.m.lock().unwrap_or_else(|e| e.into_inner()).record_choices = true;
    }

    /// Access the monitor (baton holder or after the run).
    pub fn with<R>(&self, f: impl FnOnce(&mut Inner<M>) -> R) -> R {
        f(&mut self.m.lock().unwrap_or_else(|e| e.into_inner()))
    }

    fn pick(g: &mut Inner<M>, me: Option<usize>) -> Option<usize> {
        let runnable: Vec<usize> = (0..g.st.len()).filter(|i| g.st[*i] == St::Runnable).collect();
        if runnable.is_empty() {
            return None;
        }
        if let Some(r) = &mut g.replay {
            if !r.is_empty() {
                let c = r.remove(0) as usize;
                if runnable.contains(&c) {
                    return Some(c);
                }
            }
        }
        let me_runnable = me.filter(|m| runnable.contains(m));
        let choice = match &g.policy {
            Policy::Random { stay_pct } => {
                let stay = *stay_pct;
                match me_runnable {
                    Some(m) if g.rng.below(100) < stay => m,
                    _ => runnable[g.rng.usize_below(runnable.len())],
                }
            }
            Policy::Pct { .. } => {
                let step = g.step;
                if g.change_points.contains(&step) {
                    if let Some(m) = me_runnable {
                        // demote the running actor below everything else
                        g.prio[m] = g.rng.u64() >> 2;
                    }
                }
                *runnable.iter().max_by_key(|i| g.prio[**i]).unwrap()
            }
            Policy::PreemptAt { steps, to, lowest_first } => {
                let step = g.step;
                match (me_runnable, steps.iter().position(|s| *s == step)) {
                    (Some(m), None) => m,
                    (Some(m), Some(k)) => {
                        let others: Vec<usize> = runnable.iter().copied().filter(|x| *x != m).collect();
                        if others.is_empty() { m } else { others[to[k % to.len()] % others.len()] }
                    }
                    (None, _) => {
                        // current actor blocked/finished
                        if *lowest_first { runnable[0] } else { runnable[g.rng.usize_below(runnable.len())] }
                    }
                }
            }
        };
        Some(choice)
    }

    /// Hand the baton on. `me` gives up the CPU; returns when `me` holds the baton again (or
    /// immediately if `leaving`).
    fn switch<'a>(&'a self, mut g: std::sync::MutexGuard<'a, Inner<M>>, me: usize, leaving: bool) {
        if g.step > g.max_steps {
            g.over_budget = true;
        }
        let next = Self::pick(&mut g, Some(me));
        match next {
            Some(n) => {
                if n != me {
                    g.switches += 1;
                }
                g.sched_hash = fnv_mix(g.sched_hash, n as u64);
                if g.record_choices {
                    g.choices.push(n as u8);
                }
                g.current = Some(n);
            }
            None => {
                // Nobody runnable. If someone is blocked, they are stuck forever: release them
                // all with `Stuck`.
                g.current = None;
                let any_blocked = g.st.iter().any(|s| *s == St::Blocked);
                if any_blocked {
                    g.stuck = true;
                    for i in 0..g.st.len() {
                        if g.st[i] == St::Blocked {
                            // they resume one at a time, lowest id first
                            g.st[i] = St::Runnable;
                            g.woken[i] = false;
                        }
                    }
                    let n = Self::pick(&mut g, None).unwrap();
                    g.current = Some(n);
                } else {
                    g.finished = true;
                }
            }
        }
        self.cv.notify_all();
        if leaving {
            return;
        }
        while g.current != Some(me) {
            g = self.cv.wait(g).unwrap_or_else(|e| e.into_inner());
        }
    }

    pub fn wake(&self, id: usize) {
        if self.free_running.load(Ordering::Relaxed) {
            let mut g = self.m.lock().unwrap_or_else(|e| e.into_inner());
            g.woken[id] = true;
            self.cv.notify_all();
            return;
        }
        // Called by the baton holder (or by the main thread before start).
        let mut g = self.m.lock().unwrap_or_else(|e| e.into_inner());
        g.woken[id] = true;
        if g.st[id] == St::Blocked {
            g.st[id] = St::Runnable;
        }
    }

    /// Start everything: actor 0.. become runnable, the first pick gets the baton. Blocks the
    /// calling (main) thread until all actors are done.
    pub fn run_to_completion(&self) {
        let mut g = self.m.lock().unwrap_or_else(|e| e.into_inner());
        for s in g.st.iter_mut() {
            if *s == St::NotStarted {
                *s = St::Runnable;
            }
        }
        let n = Self::pick(&mut g, None);
        g.current = n;
        if n.is_none() {
            g.finished = true;
        }
        self.cv.notify_all();
        while !g.finished {
            g = self.cv.wait(g).unwrap_or_else(|e| e.into_inner());
        }
    }

    pub fn actor_names(&self) -> Vec<String> {
        self.m.lock().unwrap_or_else(|e| e.into_inner()).names.clone()
    }
}

impl<M: Monitor + 'static> Ctx<M> {
    /// Must be the first call on the actor's thread: registers the thread and waits for the baton.
    pub fn enter(sched: Arc<Sched<M>>, id: usize) -> Self {
        let sink: Arc<dyn HookSink> = sched.clone();
        CUR.with(|c| *c.borrow_mut() = Some((sink, id)));
        {
            let mut g = sched.m.lock().unwrap_or_else(|e| e.into_inner());
            while g.current != Some(id) {
                g = sched.cv.wait(g).unwrap_or_else(|e| e.into_inner());
            }
        }
        Ctx { sched, id }
    }

    /// Actor finished: hand the baton on for good.
    pub fn leave(self) {
        CUR.with(|c| *c.borrow_mut() = None);
        let mut g = self.sched.m.lock().unwrap_or_else(|e| e.into_inner());
        g.st[self.id] = St::Done;
        g.step += 1;
        self.sched.switch(g, self.id, true);
    }

    pub fn yield_now(&self) {
        let mut g = self.sched.m.lock().unwrap_or_else(|e| e.into_inner());
        if g.no_yield[self.id] > 0 {
            return;
        }
        g.step += 1;
        self.sched.switch(g, self.id, false);
    }

    /// Block until `wake(id)` was called since the last `block` returned (wake-ups are sticky, as
    /// with a real task waker). Returns `Stuck` if nobody is left who could wake us.
    pub fn block(&self) -> Blocked {
        let mut g = self.sched.m.lock().unwrap_or_else(|e| e.into_inner());
        if g.woken[self.id] {
            g.woken[self.id] = false;
            drop(g);
            self.yield_now();
            return Blocked::Woken;
        }
        g.st[self.id] = St::Blocked;
        g.step += 1;
        self.sched.switch(g, self.id, false);
        let mut g = self.sched.m.lock().unwrap_or_else(|e| e.into_inner());
        if g.woken[self.id] {
            g.woken[self.id] = false;
            Blocked::Woken
        } else {
            Blocked::Stuck
        }
    }

    pub fn waker(&self) -> Waker {
        Waker::from(Arc::new(ActorWaker { sched: self.sched.clone(), id: self.id }))
    }

    /// Run `f` without any scheduling point inside (events are still monitored).
    pub fn atomic<R>(&self, f: impl FnOnce() -> R) -> R {
        self.sched.m.lock().unwrap_or_else(|e| e.into_inner()).no_yield[self.id] += 1;
        let r = f();
        self.sched.m.lock().unwrap_or_else(|e| e.into_inner()).no_yield[self.id] -= 1;
        r
    }

    pub fn mon<R>(&self, f: impl FnOnce(&mut M) -> R) -> R {
        f(&mut self.sched.m.lock().unwrap_or_else(|e| e.into_inner()).mon)
    }

    pub fn over_budget(&self) -> bool {
        self.sched.m.lock().unwrap_or_else(|e| e.into_inner()).over_budget
    }

    pub fn step(&self) -> u64 {
        self.sched.m.lock().unwrap_or_else(|e| e.into_inner()).step
    }

    /// Wake another actor (e.g. the wire got a frame: wake RX).
    pub fn wake_actor(&self, id: usize) {
        self.sched.wake(id);
    }
}
