//! A `lock_api::RawRwLock` for single-threaded harness executors: any contended acquisition can
//! never be resolved (nobody else runs), so instead of spinning forever it panics. This turns a
//! self-deadlock inside ethercrab (the same task taking the PDI lock twice) into a decidable
//! event for the monitors instead of a wall-clock watchdog firing.

use std::sync::atomic::{AtomicIsize, Ordering};

/// state: 0 free, -1 exclusive, n > 0 shared holders
pub struct DetLock(AtomicIsize);

unsafe impl lock_api::RawRwLock for DetLock {
    #[allow(clippy::declare_interior_mutable_const)]
    const INIT: Self = DetLock(AtomicIsize::new(0));
    type GuardMarker = lock_api::GuardSend;

    fn lock_shared(&self) {
        if !self.try_lock_shared() {
            panic!("self-deadlock: shared PDI lock requested while it is held exclusively by the same task");
        }
    }

    fn try_lock_shared(&self) -> bool {
        let v = self.0.load(Ordering::SeqCst);
        if v < 0 {
            return false;
        }
        self.0.store(v + 1, Ordering::SeqCst);
        true
    }

    unsafe fn unlock_shared(&self) {
        self.0.fetch_sub(1, Ordering::SeqCst);
    }

    fn lock_exclusive(&self) {
        if !self.try_lock_exclusive() {
            panic!("self-deadlock: exclusive PDI lock requested while it is already held by the same task");
        }
    }

    fn try_lock_exclusive(&self) -> bool {
        self.0.compare_exchange(0, -1, Ordering::SeqCst, Ordering::SeqCst).is_ok()
    }

    unsafe fn unlock_exclusive(&self) {
        self.0.store(0, Ordering::SeqCst);
    }
}
