//! Engine `simnet`: a simulated EtherCAT segment between `PduTx` and `PduRx`.
//!
//! Every frame ethercrab transmits is decoded (strictly), its datagrams are executed against the
//! simulated devices in ring order with working-counter accounting, and the answer is handed to
//! `PduRx::receive_frame` after a (seeded) virtual latency. The simulator is the oracles' ground
//! truth and the fault injector.

pub mod desc;
pub mod device;
pub mod mbx;

use crate::prng::Rng;
use crate::vclock;
use crate::wire::{self, Dgram, Frame};
use device::*;
use ethercrab::{PduRx, PduTx};
use std::future::Future;
use std::pin::Pin;
use std::sync::Arc;
use std::task::{Context, Poll, Wake, Waker};

/// Physical tree: for each device (index = creation order) where its port 0 is plugged in.
#[derive(Clone, Debug, Default)]
pub struct Topology {
    /// `up[i] = Some((parent, parent_port))`; `None` for the device wired to the MainDevice.
    pub up: Vec<Option<(usize, u8)>>,
    /// One-way delay of the link between device i and its upstream neighbour (ns).
    pub link_ns: Vec<u64>,
}

impl Topology {
    pub fn chain(n: usize, link_ns: u64) -> Self {
        Topology { up: (0..n).map(|i| if i == 0 { None } else { Some((i - 1, 1)) }).collect(), link_ns: vec![link_ns; n] }
    }

    pub fn children(&self, i: usize, port: u8) -> Option<usize> {
        (0..self.up.len()).find(|c| self.up[*c] == Some((i, port)))
    }

    /// Devices in frame-processing order (DFS, ports 3, 1, 2).
    pub fn ring_order(&self, present: &dyn Fn(usize) -> bool) -> Vec<usize> {
        let mut out = vec![];
        fn visit(t: &Topology, i: usize, present: &dyn Fn(usize) -> bool, out: &mut Vec<usize>) {
            if !present(i) {
                return;
            }
            out.push(i);
            for p in [3u8, 1, 2] {
                if let Some(c) = t.children(i, p) {
                    visit(t, c, present, out);
                }
            }
        }
        for r in 0..self.up.len() {
            if self.up[r].is_none() {
                visit(self, r, present, &mut out);
            }
        }
        out
    }
}

#[derive(Clone, Debug, Default)]
pub struct Faults {
    /// Drop the response of every n-th frame (0 = never).
    pub drop_every: u64,
    /// Add this to the working counter of every datagram whose command is in `wkc_cmds`.
    pub wkc_delta: i32,
    pub wkc_cmds: Vec<u8>,
    /// Unplug device `d` (and everything behind it) when the frame counter reaches `at`.
    pub unplug: Option<(usize, u64)>,
    /// Duplicate every n-th response.
    pub dup_every: u64,
    /// Device `d` does not service frame number `at` (it forwards it untouched: a transient
    /// dropout of exactly one frame; devices behind it still see the frame).
    pub miss: Option<(usize, u64)>,
    /// Device `d` services no frame at all while this is set (it still forwards them).
    pub deaf: Option<usize>,
    /// Logical read/write answers: XOR every data byte that no read FMMU of any device supplied
    /// with this (non-zero) value. "Arbitrary device answers" for the bytes of an LRW the MainDevice
    /// must not take over (its own outputs, gaps): legal on a real segment whenever some read FMMU
    /// (of a device this MainDevice did not configure) covers those logical addresses.
    pub scramble_unread_lrw: u8,
}

#[derive(Clone, Debug)]
pub struct WireLog {
    pub frame_no: u64,
    pub tx: Frame,
    pub rx: Option<Frame>,
    pub t_us: u64,
}

pub struct Net {
    pub devs: Vec<Device>,
    pub topo: Topology,
    pub faults: Faults,
    pub frame_no: u64,
    /// Global time (ns) used for DC latching; advances with every frame.
    pub now_ns: u64,
    pub ns_per_frame: u64,
    pub log: Vec<WireLog>,
    pub keep_log: bool,
    pub malformed: Vec<String>,
    pub frames_seen: u64,
    pub dgrams_seen: u64,
    /// The empty network answers like a NIC in a looped-back cable: unmodified echo, or (the only
    /// way ethercrab can see "0 devices") an echo with the U/L bit set.
    pub empty_sets_ul_bit: bool,
    /// C17 hostile family: latch random port receive times instead of the physical ones.
    pub scramble_port_times: Option<u64>,
    /// Make every DC device's 32 bit port times straddle the 32 bit wrap at the latch.
    pub straddle_wrap: Option<u64>,
}

impl Net {
    pub fn new(descs: Vec<desc::DeviceDesc>, topo: Topology) -> Self {
        let mut devs: Vec<Device> = descs.into_iter().map(Device::new).collect();
        for i in 0..devs.len() {
            let mut links = [false; 4];
            links[0] = true; // towards the master / parent
            for p in [1u8, 2, 3] {
                if topo.children(i, p).is_some() {
                    links[p as usize] = true;
                }
            }
            devs[i].links = links;
        }
        Net {
            devs,
            topo,
            faults: Faults::default(),
            frame_no: 0,
            now_ns: 1_000_000_000,
            ns_per_frame: 10_000,
            log: vec![],
            keep_log: false,
            malformed: vec![],
            frames_seen: 0,
            dgrams_seen: 0,
            empty_sets_ul_bit: true,
            scramble_port_times: None,
            straddle_wrap: None,
        }
    }

    pub fn chain(descs: Vec<desc::DeviceDesc>) -> Self {
        let n = descs.len();
        Net::new(descs, Topology::chain(n, 100))
    }

    pub fn ring(&self) -> Vec<usize> {
        let devs = &self.devs;
        self.topo.ring_order(&|i| devs[i].present)
    }

    fn refresh_links(&mut self) {
        for i in 0..self.devs.len() {
            let mut links = [false; 4];
            links[0] = true;
            for p in [1u8, 2, 3] {
                if let Some(c) = self.topo.children(i, p) {
                    links[p as usize] = self.devs[c].present;
                }
            }
            self.devs[i].links = links;
        }
    }

    /// Propagate a frame through the tree and return, per device, the global arrival time at each
    /// port (ports the frame never enters keep 0) and at the processing unit.
    pub fn port_times(&self, t0: u64) -> Vec<([u64; 4], u64)> {
        let mut res = vec![([0u64; 4], 0u64); self.devs.len()];
        fn visit(n: &Net, i: usize, t_in: u64, res: &mut Vec<([u64; 4], u64)>) -> u64 {
            res[i].0[0] = t_in;
            res[i].1 = t_in;
            let mut t = t_in;
            for p in [3u8, 1, 2] {
                if let Some(c) = n.topo.children(i, p) {
                    if !n.devs[c].present {
                        continue;
                    }
                    let l = n.topo.link_ns[c];
                    let back = visit(n, c, t + l, res) + l;
                    res[i].0[p as usize] = back;
                    t = back;
                }
            }
            t
        }
        for r in 0..self.devs.len() {
            if self.topo.up[r].is_none() && self.devs[r].present {
                visit(self, r, t0 + self.topo.link_ns[r], &mut res);
            }
        }
        res
    }

    fn dc_latch(&mut self) {
        let times = self.port_times(self.now_ns);
        for (i, d) in self.devs.iter_mut().enumerate() {
            if !d.present || !d.desc.dc_supported {
                continue;
            }
            let (mut ports, epu) = times[i];
            if let Some(seed) = self.straddle_wrap {
                // choose the local clock so that port 0 sees a time just below 2^32 and the frame
                // returns (other ports) after the 32 bit counter wrapped
                let mut r = Rng::new(seed ^ (i as u64) << 8);
                let last = ports.iter().copied().max().unwrap_or(0);
                let span = last.saturating_sub(ports[0]);
                let before = if span > 1 { 1 + r.below(span - 1) } else { 0 };
                let target = 0x1_0000_0000u64.wrapping_sub(before) | (r.u64() & 0xffff_fffe_0000_0000);
                d.clock_offset = target.wrapping_sub(ports[0]);
            }
            if let Some(seed) = self.scramble_port_times {
                let mut r = Rng::new(seed ^ i as u64);
                for p in ports.iter_mut() {
                    *p = match r.below(4) {
                        0 => 0,
                        1 => u32::MAX as u64,
                        _ => r.u64(),
                    };
                }
            }
            for p in 0..4 {
                let local = if ports[p] == 0 { 0 } else { ports[p].wrapping_add(d.clock_offset) };
                d.latched_ports[p] = local;
                d.mem[REG_DC_PORT0 + 4 * p..REG_DC_PORT0 + 4 * p + 4].copy_from_slice(&(local as u32).to_le_bytes());
            }
            let recv = epu.wrapping_add(d.clock_offset);
            d.latched_recv = recv;
            let v = if d.desc.dc_64 { recv } else { recv & 0xffff_ffff };
            d.mem[REG_DC_RECV..REG_DC_RECV + 8].copy_from_slice(&v.to_le_bytes());
        }
    }

    /// Execute one transmitted frame. Returns the response bytes (None = nothing comes back).
    pub fn process_frame(&mut self, tx_bytes: &[u8]) -> Option<Vec<u8>> {
        self.frame_no += 1;
        self.frames_seen += 1;
        self.now_ns += self.ns_per_frame;
        if let Some((d, at)) = self.faults.unplug {
            if self.frame_no == at {
                // unplug d and everything behind it
                let mut gone = vec![d];
                let mut k = 0;
                while k < gone.len() {
                    let g = gone[k];
                    for c in 0..self.devs.len() {
                        if self.topo.up[c].map(|u| u.0) == Some(g) {
                            gone.push(c);
                        }
                    }
                    k += 1;
                }
                for g in gone {
                    self.devs[g].present = false;
                }
                self.refresh_links();
            }
        }
        let mut f = match wire::decode_frame(tx_bytes) {
            Ok(f) => f,
            Err(e) => {
                self.malformed.push(format!("frame {}: {e:?}", self.frame_no));
                return None;
            }
        };
        let sum: usize = f.dgrams.iter().map(|d| d.wire_len()).sum();
        if f.dst != wire::MAC_BROADCAST || f.src != wire::MAC_MAIN || f.ethertype != wire::ETHERTYPE_ECAT || f.ecat_type != 1 || f.ecat_len as usize != sum || f.dgrams.last().is_some_and(|d| d.more) || f.dgrams.iter().rev().skip(1).any(|d| !d.more) || f.dgrams.iter().any(|d| d.wkc != 0 || d.irq != 0 || d.circulating) {
            self.malformed.push(format!("frame {}: header/flags inconsistent: len {} sum {sum}, dgrams {}", self.frame_no, f.ecat_len, f.dgrams.len()));
        }
        let tx_copy = f.clone();
        let mut ring = self.ring();
        let populated = !ring.is_empty();
        if let Some(d) = self.faults.deaf {
            ring.retain(|i| *i != d);
        }
        if let Some((d, at)) = self.faults.miss {
            if at == self.frame_no {
                ring.retain(|i| *i != d);
            }
        }
        if populated && ring.is_empty() {
            // somebody still forwards the frame (U/L bit set), nobody services it
            f.src = wire::MAC_RETURNED;
            if self.keep_log {
                self.log.push(WireLog { frame_no: self.frame_no, tx: tx_copy, rx: Some(f.clone()), t_us: vclock::now() });
            }
            return Some(wire::encode_frame(&f));
        }
        if ring.is_empty() {
            if self.empty_sets_ul_bit {
                f.src = wire::MAC_RETURNED;
            }
            return Some(wire::encode_frame(&f));
        }
        let frame_no = self.frame_no;
        for (di, d) in f.dgrams.iter_mut().enumerate() {
            self.dgrams_seen += 1;
            let latch = d.cmd == wire::CMD_BWR && d.ado() == REG_DC_PORT0 as u16 || (matches!(d.cmd, wire::CMD_FPWR | wire::CMD_APWR) && d.ado() == REG_DC_PORT0 as u16);
            for dev_i in ring.iter().copied() {
                exec(&mut self.devs[dev_i], d, (frame_no, di));
            }
            if latch {
                self.dc_latch();
            }
            if self.faults.scramble_unread_lrw != 0 && d.cmd == wire::CMD_LRW {
                let (la, len) = (d.addr as u64, d.data.len());
                let mut supplied = vec![false; len];
                for dev_i in ring.iter().copied() {
                    for fi in 0..16 {
                        let f = self.devs[dev_i].fmmu(fi);
                        if !f.enabled || f.len == 0 || !f.read {
                            continue;
                        }
                        let (fs, fe) = (f.lstart as u64, f.lstart as u64 + f.len as u64);
                        let (s, e) = (la.max(fs), (la + len as u64).min(fe));
                        for a in s..e.max(s) {
                            supplied[(a - la) as usize] = true;
                        }
                    }
                }
                for (b, sup) in d.data.iter_mut().zip(supplied) {
                    if !sup {
                        *b ^= self.faults.scramble_unread_lrw;
                    }
                }
            }
            if self.faults.wkc_delta != 0 && (self.faults.wkc_cmds.is_empty() || self.faults.wkc_cmds.contains(&d.cmd)) {
                d.wkc = (d.wkc as i32 + self.faults.wkc_delta).max(0) as u16;
            }
        }
        f.src = wire::MAC_RETURNED;
        if self.keep_log {
            self.log.push(WireLog { frame_no, tx: tx_copy, rx: Some(f.clone()), t_us: vclock::now() });
        }
        if self.faults.drop_every > 0 && self.frame_no % self.faults.drop_every == 0 {
            return None;
        }
        Some(wire::encode_frame(&f))
    }

    /// System time of device `i` as an FPRD would see it now.
    pub fn system_time(&self, i: usize) -> u64 {
        let d = &self.devs[i];
        let off = u64::from_le_bytes(d.mem[REG_DC_OFFSET..REG_DC_OFFSET + 8].try_into().unwrap());
        self.now_ns.wrapping_add(d.clock_offset).wrapping_add(off)
    }
}

fn exec(dev: &mut Device, d: &mut Dgram, prov: (u64, usize)) {
    let len = d.data.len();
    let prov3 = (prov.0, prov.1, d.cmd);
    match d.cmd {
        wire::CMD_NOP => {}
        wire::CMD_APRD | wire::CMD_APWR | wire::CMD_APRW | wire::CMD_ARMW => {
            let selected = d.adp() == 0;
            let ado = d.ado() as usize;
            match d.cmd {
                wire::CMD_APRD if selected => phys_read(dev, d, ado, false),
                wire::CMD_APWR if selected => phys_write(dev, d, ado, prov3),
                wire::CMD_APRW if selected => phys_rw(dev, d, ado, prov3),
                wire::CMD_ARMW => {
                    if selected {
                        phys_read(dev, d, ado, false)
                    } else {
                        phys_write(dev, d, ado, prov3)
                    }
                }
                _ => {}
            }
            let a = d.adp().wrapping_add(1);
            d.set_adp(a);
        }
        wire::CMD_FPRD | wire::CMD_FPWR | wire::CMD_FPRW | wire::CMD_FRMW => {
            let selected = dev.station() == d.adp();
            let ado = d.ado() as usize;
            match d.cmd {
                wire::CMD_FPRD if selected => phys_read(dev, d, ado, false),
                wire::CMD_FPWR if selected => phys_write(dev, d, ado, prov3),
                wire::CMD_FPRW if selected => phys_rw(dev, d, ado, prov3),
                wire::CMD_FRMW => {
                    if selected {
                        phys_read(dev, d, ado, false)
                    } else {
                        phys_write(dev, d, ado, prov3)
                    }
                }
                _ => {}
            }
        }
        wire::CMD_BRD | wire::CMD_BWR | wire::CMD_BRW => {
            let ado = d.ado() as usize;
            match d.cmd {
                wire::CMD_BRD => phys_read(dev, d, ado, true),
                wire::CMD_BWR => phys_write(dev, d, ado, prov3),
                _ => phys_rw(dev, d, ado, prov3),
            }
            let a = d.adp().wrapping_add(1);
            d.set_adp(a);
        }
        wire::CMD_LRD | wire::CMD_LWR | wire::CMD_LRW => {
            let la = d.addr as u64;
            let (mut did_r, mut did_w) = (false, false);
            for fi in 0..16 {
                let f = dev.fmmu(fi);
                if !f.enabled || f.len == 0 {
                    continue;
                }
                let (fs, fe) = (f.lstart as u64, f.lstart as u64 + f.len as u64);
                let (s, e) = (la.max(fs), (la + len as u64).min(fe));
                if s >= e {
                    continue;
                }
                let n = (e - s) as usize;
                let pa = f.pstart as usize + (s - fs) as usize;
                let off = (s - la) as usize;
                if f.read && matches!(d.cmd, wire::CMD_LRD | wire::CMD_LRW) {
                    if let Some(bytes) = dev.read(pa, n) {
                        d.data[off..off + n].copy_from_slice(&bytes);
                        did_r = true;
                    }
                }
                if f.write && matches!(d.cmd, wire::CMD_LWR | wire::CMD_LRW) {
                    let bytes = d.data[off..off + n].to_vec();
                    if dev.write(pa, &bytes, prov3) {
                        did_w = true;
                    }
                }
            }
            match d.cmd {
                wire::CMD_LRD => d.wkc = d.wkc.wrapping_add(did_r as u16),
                wire::CMD_LWR => d.wkc = d.wkc.wrapping_add(did_w as u16),
                _ => d.wkc = d.wkc.wrapping_add(did_r as u16 + 2 * did_w as u16),
            }
        }
        _ => {}
    }
}

fn dc_blocked(dev: &Device, ado: usize, len: usize) -> bool {
    !dev.desc.dc_supported && ado < 0x0a00 && ado + len > 0x0900
}

fn phys_read(dev: &mut Device, d: &mut Dgram, ado: usize, or: bool) {
    let len = d.data.len();
    if dc_blocked(dev, ado, len) {
        return;
    }
    if let Some(bytes) = dev.read(ado, len) {
        if or {
            for (x, y) in d.data.iter_mut().zip(bytes) {
                *x |= y;
            }
        } else {
            d.data.copy_from_slice(&bytes);
        }
        d.wkc = d.wkc.wrapping_add(1);
    }
}

fn phys_write(dev: &mut Device, d: &mut Dgram, ado: usize, prov: (u64, usize, u8)) {
    if dc_blocked(dev, ado, d.data.len()) {
        return;
    }
    let data = d.data.clone();
    if dev.write(ado, &data, prov) {
        d.wkc = d.wkc.wrapping_add(1);
    }
}

fn phys_rw(dev: &mut Device, d: &mut Dgram, ado: usize, prov: (u64, usize, u8)) {
    let len = d.data.len();
    if dc_blocked(dev, ado, len) {
        return;
    }
    let wdata = d.data.clone();
    if let Some(bytes) = dev.read(ado, len) {
        d.data.copy_from_slice(&bytes);
        d.wkc = d.wkc.wrapping_add(1);
    }
    if dev.write(ado, &wdata, prov) {
        d.wkc = d.wkc.wrapping_add(2);
    }
}

// ------------------------------------------------------------------------------------------------
// Executor: drives one (or several) futures against the network under virtual time.

#[derive(Debug, Clone, PartialEq, Eq)]
pub enum Stop {
    /// Nothing can make progress any more: no frame in flight, no timer pending.
    Stuck,
    /// Step / frame budget exhausted (inconclusive, not a verdict).
    Budget,
}

pub struct Sim<'a> {
    pub tx: PduTx<'a>,
    pub rx: PduRx<'a>,
    pub net: Net,
    pub rng: Rng,
    /// (deliver at µs, bytes)
    pub inflight: Vec<(u64, Vec<u8>)>,
    pub latency_us: (u64, u64),
    pub max_iters: u64,
    pub iters: u64,
    pub rx_errors: Vec<String>,
    pub frames_tx: u64,
    pub reorder: bool,
}

struct Flag(std::sync::atomic::AtomicBool);
impl Wake for Flag {
    fn wake(self: Arc<Self>) {
        self.0.store(true, std::sync::atomic::Ordering::SeqCst);
    }
}

impl<'a> Sim<'a> {
    pub fn new(tx: PduTx<'a>, rx: PduRx<'a>, net: Net, seed: u64) -> Self {
        Sim { tx, rx, net, rng: Rng::new(seed ^ 0x51AA), inflight: vec![], latency_us: (1, 1), max_iters: 2_000_000, iters: 0, rx_errors: vec![], frames_tx: 0, reorder: false }
    }

    /// Move frames: everything sendable goes to the network, everything due comes back.
    /// Returns whether anything happened.
    pub fn pump(&mut self) -> bool {
        let mut progress = false;
        while let Some(f) = self.tx.next_sendable_frame() {
            let mut bytes = vec![];
            let _ = f.send_blocking(|b| {
                bytes = b.to_vec();
                Ok(b.len())
            });
            self.frames_tx += 1;
            progress = true;
            if let Some(resp) = self.net.process_frame(&bytes) {
                let lat = self.rng.range(self.latency_us.0, self.latency_us.1);
                let dup = self.net.faults.dup_every > 0 && self.net.frame_no % self.net.faults.dup_every == 0;
                if dup {
                    self.inflight.push((vclock::now() + lat + 1, resp.clone()));
                }
                self.inflight.push((vclock::now() + lat, resp));
            }
        }
        let now = vclock::now();
        let mut due: Vec<(u64, Vec<u8>)> = vec![];
        let mut i = 0;
        while i < self.inflight.len() {
            if self.inflight[i].0 <= now {
                due.push(self.inflight.remove(i));
            } else {
                i += 1;
            }
        }
        if !self.reorder {
            due.sort_by_key(|d| d.0);
        } else {
            self.rng.shuffle(&mut due);
        }
        for (_, b) in due {
            progress = true;
            if let Err(e) = self.rx.receive_frame(&b) {
                if self.rx_errors.len() < 8 {
                    self.rx_errors.push(format!("{e:?}"));
                }
            }
        }
        progress
    }

    /// Advance virtual time to the next event. False if there is none.
    pub fn advance(&mut self) -> bool {
        let next_net = self.inflight.iter().map(|f| f.0).min();
        let next_timer = vclock::next_deadline();
        match (next_net, next_timer) {
            (None, None) => false,
            (a, b) => {
                let t = a.unwrap_or(u64::MAX).min(b.unwrap_or(u64::MAX));
                vclock::advance_to(t);
                true
            }
        }
    }

    pub fn run<F: Future>(&mut self, fut: F) -> Result<F::Output, Stop> {
        let mut fut = std::pin::pin!(fut);
        self.run_pinned(fut.as_mut())
    }

    pub fn run_pinned<F: Future + ?Sized>(&mut self, mut fut: Pin<&mut F>) -> Result<F::Output, Stop> {
        let flag = Arc::new(Flag(std::sync::atomic::AtomicBool::new(true)));
        let waker = Waker::from(flag.clone());
        let mut cx = Context::from_waker(&waker);
        loop {
            self.iters += 1;
            if self.iters > self.max_iters {
                return Err(Stop::Budget);
            }
            if let Poll::Ready(v) = fut.as_mut().poll(&mut cx) {
                // let late frames drain so slots are clean for the next call
                return Ok(v);
            }
            let progress = self.pump();
            if !progress && !self.advance() {
                return Err(Stop::Stuck);
            }
        }
    }

    /// Drive several tasks; the seeded choice of which task to poll next is the schedule.
    pub fn run_many<'f, T>(&mut self, mut tasks: Vec<Pin<Box<dyn Future<Output = T> + 'f>>>) -> Result<Vec<T>, Stop> {
        let n = tasks.len();
        let mut out: Vec<Option<T>> = (0..n).map(|_| None).collect();
        let flags: Vec<Arc<Flag>> = (0..n).map(|_| Arc::new(Flag(std::sync::atomic::AtomicBool::new(true)))).collect();
        loop {
            self.iters += 1;
            if self.iters > self.max_iters {
                return Err(Stop::Budget);
            }
            let pending: Vec<usize> = (0..n).filter(|i| out[*i].is_none()).collect();
            if pending.is_empty() {
                return Ok(out.into_iter().map(|o| o.unwrap()).collect());
            }
            // poll one woken task chosen by the seed (all of them are polled eventually: a task
            // that was not woken is polled too when nothing else is runnable)
            let woken: Vec<usize> = pending.iter().copied().filter(|i| flags[*i].0.load(std::sync::atomic::Ordering::SeqCst)).collect();
            let mut polled = false;
            if !woken.is_empty() {
                let i = woken[self.rng.usize_below(woken.len())];
                flags[i].0.store(false, std::sync::atomic::Ordering::SeqCst);
                let waker = Waker::from(flags[i].clone());
                let mut cx = Context::from_waker(&waker);
                if let Poll::Ready(v) = tasks[i].as_mut().poll(&mut cx) {
                    out[i] = Some(v);
                }
                polled = true;
            }
            // the network moves at a seeded pace relative to the tasks
            let progress = if !polled || self.rng.chance(1, 2) { self.pump() } else { false };
            if !polled && !progress && !self.advance() {
                // nobody woken, nothing in flight, no timer: poll everybody once more, then give up
                let mut any = false;
                for i in pending {
                    let waker = Waker::from(flags[i].clone());
                    let mut cx = Context::from_waker(&waker);
                    if let Poll::Ready(v) = tasks[i].as_mut().poll(&mut cx) {
                        out[i] = Some(v);
                        any = true;
                    }
                }
                if !any && !self.pump() && !self.advance() {
                    return Err(Stop::Stuck);
                }
            }
        }
    }
}
