//! Mailbox + CoE server of a simulated SubDevice (ETG.1000.5/.6 §5.6), or a byte script (C16).

use super::desc::DeviceDesc;
use std::collections::{BTreeMap, VecDeque};

#[derive(Clone, Debug, PartialEq, Eq)]
pub enum UploadMode {
    /// Expedited when <= 4 bytes, else normal, segmented when it does not fit the mailbox.
    Auto,
    /// Never expedited (normal even for small objects).
    ForceNormal,
    /// Segmented even if it would fit: the initiate response carries at most this many bytes and
    /// each segment at most `seg` bytes.
    ForceSegmented { first: usize, seg: usize },
}

#[derive(Clone, Debug)]
pub struct ReceivedRequest {
    pub raw: Vec<u8>,
    pub counter: u8,
    pub mbx_type: u8,
}

#[derive(Clone, Debug)]
pub enum Scripted {
    /// Answer every request with these raw mailbox bytes (cycled).
    Raw(Vec<Vec<u8>>),
}

pub struct Mailbox {
    pub write_full: bool,
    pub read_full: bool,
    /// Responses waiting for the read mailbox to become free.
    pub queue: VecDeque<Vec<u8>>,
    pub received: Vec<ReceivedRequest>,
    /// (index, sub) -> bytes
    pub od: BTreeMap<(u16, u8), Vec<u8>>,
    /// (index, sub) -> abort code
    pub aborts: BTreeMap<(u16, u8), u32>,
    pub upload_mode: UploadMode,
    pub script: Option<Scripted>,
    script_pos: usize,
    /// Segmented upload in progress: remaining bytes + expected toggle.
    seg: Option<(Vec<u8>, bool)>,
    pub counter_out: u8,
    /// Bytes the unused part of the read mailbox is filled with (stale data / canary).
    pub fill: u8,
    /// Emit an emergency message before the next response.
    pub emergency_next: Option<(u16, u8)>,
    /// Answer the next upload with a response for a different object.
    pub wrong_object_next: bool,
    pub downloads: Vec<(u16, u8, Vec<u8>, bool)>,
    pub responses_sent: u64,
    /// SDO info object list (indices) served with fragmentation.
    pub od_list: Vec<u16>,
    pub reads_taken: u64,
    /// Size of the read mailbox (from the description).
    pub read_mbx_len: usize,
    /// Scripted device refills its out-mailbox forever without being asked again.
    pub script_refill: bool,
}

impl Mailbox {
    pub fn new(desc: &DeviceDesc) -> Self {
        let mut od = BTreeMap::new();
        if desc.coe_pdo {
            // PDO assignment 0x1C10+sm and mapping objects from the description
            for (i, _sm) in desc.sms.iter().enumerate() {
                let pdos: Vec<_> = desc.pdos.iter().filter(|p| p.sm as usize == i).collect();
                od.insert((0x1c10 + i as u16, 0), vec![pdos.len() as u8]);
                for (k, p) in pdos.iter().enumerate() {
                    od.insert((0x1c10 + i as u16, k as u8 + 1), p.index.to_le_bytes().to_vec());
                }
            }
            for p in &desc.pdos {
                od.insert((p.index, 0), vec![p.entries.len() as u8]);
                for (k, e) in p.entries.iter().enumerate() {
                    let v = (e.bits as u32) | ((e.sub as u32) << 8) | ((e.index as u32) << 16);
                    od.insert((p.index, k as u8 + 1), v.to_le_bytes().to_vec());
                }
            }
        }
        Mailbox {
            write_full: false,
            read_full: false,
            queue: VecDeque::new(),
            received: vec![],
            od,
            aborts: BTreeMap::new(),
            upload_mode: UploadMode::Auto,
            script: None,
            script_pos: 0,
            seg: None,
            counter_out: 0,
            fill: 0,
            emergency_next: None,
            wrong_object_next: false,
            downloads: vec![],
            responses_sent: 0,
            od_list: vec![],
            reads_taken: 0,
            read_mbx_len: desc.mailbox.map_or(0, |m| m.3 as usize),
            script_refill: false,
        }
    }

    fn next_counter(&mut self) -> u8 {
        self.counter_out = if self.counter_out >= 7 { 1 } else { self.counter_out + 1 };
        self.counter_out
    }

    fn mbx(&mut self, mbx_type: u8, payload: &[u8]) -> Vec<u8> {
        let c = self.next_counter();
        let mut v = vec![];
        v.extend_from_slice(&(payload.len() as u16).to_le_bytes());
        v.extend_from_slice(&0u16.to_le_bytes()); // address
        v.push(0); // channel/priority
        v.push((mbx_type & 0x0f) | (c << 4));
        v.extend_from_slice(payload);
        v
    }

    fn coe(&mut self, service: u8, body: &[u8]) -> Vec<u8> {
        let mut p = vec![];
        p.extend_from_slice(&((service as u16) << 12).to_le_bytes());
        p.extend_from_slice(body);
        self.mbx(3, &p)
    }

    /// The master finished writing the write mailbox.
    pub fn written(&mut self, content: Vec<u8>) {
        self.write_full = true;
        let mbx_type = content.get(5).map_or(0, |b| b & 0x0f);
        let counter = content.get(5).map_or(0, |b| (b >> 4) & 7);
        self.received.push(ReceivedRequest { raw: content.clone(), counter, mbx_type });
        // the application consumes it at once
        self.write_full = false;
        if let Some(Scripted::Raw(list)) = &self.script {
            if !list.is_empty() {
                let r = list[self.script_pos % list.len()].clone();
                self.script_pos += 1;
                self.queue.push_back(r);
            }
            return;
        }
        let responses = self.serve(&content);
        for r in responses {
            self.queue.push_back(r);
        }
    }

    pub fn read_taken(&mut self) {
        self.read_full = false;
        self.reads_taken += 1;
        // A scripted device that answers forever refills without being asked again.
        if let Some(Scripted::Raw(list)) = &self.script {
            if !list.is_empty() && self.queue.is_empty() && self.script_refill {
                let r = list[self.script_pos % list.len()].clone();
                self.script_pos += 1;
                self.queue.push_back(r);
            }
        }
    }

    /// If the read mailbox is free and a response is waiting: the bytes to put into the buffer.
    pub fn take_response_for_buffer(&mut self, len: usize) -> Option<Vec<u8>> {
        if self.read_full {
            return None;
        }
        let r = self.queue.pop_front()?;
        let mut buf = vec![self.fill; len];
        let n = r.len().min(len);
        buf[..n].copy_from_slice(&r[..n]);
        self.read_full = true;
        self.responses_sent += 1;
        Some(buf)
    }

    fn abort(&mut self, index: u16, sub: u8, code: u32) -> Vec<u8> {
        let mut b = vec![0x80u8];
        b.extend_from_slice(&index.to_le_bytes());
        b.push(sub);
        b.extend_from_slice(&code.to_le_bytes());
        self.coe(2, &b) // abort is an SDO *request* service per ETG.1000.6 Table 40
    }

    fn serve(&mut self, m: &[u8]) -> Vec<Vec<u8>> {
        let mut out = vec![];
        if m.len() < 8 {
            return out;
        }
        let len = u16::from_le_bytes([m[0], m[1]]) as usize;
        let mbx_type = m[5] & 0x0f;
        if mbx_type != 3 || len < 2 {
            // not CoE: mailbox error reply (type 0): unsupported protocol
            let e = self.mbx(0, &[0x01, 0x00, 0x02, 0x00]);
            out.push(e);
            return out;
        }
        let service = (u16::from_le_bytes([m[6], m[7]]) >> 12) as u8;
        if let Some((code, reg)) = self.emergency_next.take() {
            let mut b = vec![];
            b.extend_from_slice(&code.to_le_bytes());
            b.push(reg);
            b.extend_from_slice(&[1, 2, 3, 4, 5]);
            let e = self.coe(1, &b);
            out.push(e);
            return out;
        }
        match service {
            2 => {
                // SDO request
                let Some(cmd) = m.get(8).copied() else { return out };
                let ccs = cmd >> 5;
                let index = u16::from_le_bytes([*m.get(9).unwrap_or(&0), *m.get(10).unwrap_or(&0)]);
                let sub = *m.get(11).unwrap_or(&0);
                match ccs {
                    2 => {
                        // initiate upload
                        let complete = cmd & 0x10 != 0;
                        if let Some(code) = self.aborts.get(&(index, sub)).copied() {
                            out.push(self.abort(index, sub, code));
                            return out;
                        }
                        let (ri, rs) = if self.wrong_object_next {
                            self.wrong_object_next = false;
                            (index.wrapping_add(1), sub.wrapping_add(1))
                        } else {
                            (index, sub)
                        };
                        let Some(data) = self.od.get(&(index, sub)).cloned() else {
                            out.push(self.abort(index, sub, 0x0602_0000));
                            return out;
                        };
                        let _ = complete;
                        let mbx_len = self.read_mbx_len;
                        let max_normal = mbx_len.saturating_sub(16);
                        let mode = self.upload_mode.clone();
                        let expedited = data.len() <= 4 && !data.is_empty() && mode == UploadMode::Auto;
                        if expedited {
                            let n = 4 - data.len() as u8;
                            let mut b = vec![0x40 | 0x02 | 0x01 | (n << 2)];
                            b.extend_from_slice(&ri.to_le_bytes());
                            b.push(rs);
                            let mut d = data.clone();
                            d.resize(4, 0);
                            b.extend_from_slice(&d);
                            out.push(self.coe(3, &b));
                        } else {
                            let (first, segmented) = match mode {
                                UploadMode::ForceSegmented { first, .. } => (first.min(data.len()).min(max_normal), true),
                                _ => (data.len().min(max_normal), data.len() > max_normal),
                            };
                            let mut b = vec![0x40 | 0x01];
                            b.extend_from_slice(&ri.to_le_bytes());
                            b.push(rs);
                            b.extend_from_slice(&(data.len() as u32).to_le_bytes());
                            b.extend_from_slice(&data[..first]);
                            out.push(self.coe(3, &b));
                            if segmented && first < data.len() {
                                self.seg = Some((data[first..].to_vec(), false));
                            } else {
                                self.seg = None;
                            }
                        }
                    }
                    3 => {
                        // upload segment request
                        let toggle = cmd & 0x10 != 0;
                        let Some((rest, want_toggle)) = self.seg.clone() else {
                            out.push(self.abort(0, 0, 0x0504_0001));
                            return out;
                        };
                        if toggle != want_toggle {
                            out.push(self.abort(0, 0, 0x0503_0000));
                            self.seg = None;
                            return out;
                        }
                        let seg_max = match self.upload_mode {
                            UploadMode::ForceSegmented { seg, .. } => seg.max(1),
                            _ => usize::MAX,
                        };
                        let cap = self.read_mbx_len.saturating_sub(9).max(7);
                        let n = rest.len().min(cap).min(seg_max);
                        let last = n == rest.len();
                        let mut payload = rest[..n].to_vec();
                        let mut unused = 0u8;
                        if payload.len() < 7 {
                            unused = 7 - payload.len() as u8;
                            payload.resize(7, 0);
                        }
                        let hdr = (last as u8) | (unused << 1) | ((toggle as u8) << 4); // scs = 0
                        let mut b = vec![hdr];
                        b.extend_from_slice(&payload);
                        out.push(self.coe(3, &b));
                        self.seg = if last { None } else { Some((rest[n..].to_vec(), !want_toggle)) };
                    }
                    1 => {
                        // initiate download
                        let expedited = cmd & 0x02 != 0;
                        let size_ind = cmd & 0x01 != 0;
                        let complete = cmd & 0x10 != 0;
                        if let Some(code) = self.aborts.get(&(index, sub)).copied() {
                            out.push(self.abort(index, sub, code));
                            return out;
                        }
                        let data = if expedited {
                            let n = if size_ind { 4 - ((cmd >> 2) & 3) as usize } else { 4 };
                            m.get(12..12 + n).unwrap_or(&[]).to_vec()
                        } else {
                            let l = u32::from_le_bytes([*m.get(12).unwrap_or(&0), *m.get(13).unwrap_or(&0), *m.get(14).unwrap_or(&0), *m.get(15).unwrap_or(&0)]) as usize;
                            m.get(16..16 + l).unwrap_or(&[]).to_vec()
                        };
                        self.downloads.push((index, sub, data.clone(), complete));
                        self.od.insert((index, sub), data);
                        let mut b = vec![0x60];
                        b.extend_from_slice(&index.to_le_bytes());
                        b.push(sub);
                        b.extend_from_slice(&[0; 4]);
                        out.push(self.coe(3, &b));
                    }
                    4 => {
                        self.seg = None;
                    }
                    _ => out.push(self.abort(index, sub, 0x0504_0001)),
                }
            }
            8 => {
                // SDO information: get OD list (opcode 1)
                let op = m.get(8).copied().unwrap_or(0) & 0x7f;
                if op == 1 {
                    let list_type = u16::from_le_bytes([*m.get(12).unwrap_or(&0), *m.get(13).unwrap_or(&0)]);
                    let mut payload: Vec<u8> = vec![];
                    if list_type == 0 {
                        // counts of the five lists
                        let n = self.od_list.len() as u16;
                        for v in [n, 0, 0, 0, 0] {
                            payload.extend_from_slice(&v.to_le_bytes());
                        }
                    } else {
                        for i in &self.od_list {
                            payload.extend_from_slice(&i.to_le_bytes());
                        }
                    }
                    // fragment: each fragment carries the list type (first only per spec text
                    // used by ethercrab: first fragment has list type) + data
                    let cap = self.read_mbx_len.saturating_sub(6 + 2 + 4 + 2).max(2) & !1;
                    let mut chunks: Vec<Vec<u8>> = payload.chunks(cap).map(|c| c.to_vec()).collect();
                    if chunks.is_empty() {
                        chunks.push(vec![]);
                    }
                    let n = chunks.len();
                    for (k, c) in chunks.into_iter().enumerate() {
                        let left = (n - 1 - k) as u16;
                        let mut b = vec![0x02 | if left > 0 { 0x80 } else { 0 }, 0];
                        b.extend_from_slice(&left.to_le_bytes());
                        if k == 0 {
                            b.extend_from_slice(&list_type.to_le_bytes());
                        }
                        b.extend_from_slice(&c);
                        out.push(self.coe(8, &b));
                    }
                } else {
                    let mut b = vec![0x07, 0, 0, 0];
                    b.extend_from_slice(&0x0601_0000u32.to_le_bytes());
                    out.push(self.coe(8, &b));
                }
            }
            _ => out.push(self.abort(0, 0, 0x0504_0001)),
        }
        out
    }
}

