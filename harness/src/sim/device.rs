//! One simulated EtherCAT SubDevice controller (ESC): 64 KiB address space, station address,
//! AL state machine, SII interface, sync managers, FMMUs, mailbox hook, DC registers.
//! Written from ETG.1000.4/.6 and the ESC datasheet register descriptions.

use super::desc::{DeviceDesc, build_sii};
use super::mbx::Mailbox;
use std::collections::BTreeMap;

pub const REG_TYPE: usize = 0x0000;
pub const REG_SUPPORT: usize = 0x0008;
pub const REG_STATION: usize = 0x0010;
pub const REG_ALIAS: usize = 0x0012;
pub const REG_DL_STATUS: usize = 0x0110;
pub const REG_AL_CONTROL: usize = 0x0120;
pub const REG_AL_STATUS: usize = 0x0130;
pub const REG_AL_CODE: usize = 0x0134;
pub const REG_SII_CONFIG: usize = 0x0500;
pub const REG_SII_CONTROL: usize = 0x0502;
pub const REG_SII_ADDR: usize = 0x0504;
pub const REG_SII_DATA: usize = 0x0508;
pub const REG_FMMU0: usize = 0x0600;
pub const REG_SM0: usize = 0x0800;
pub const REG_DC_PORT0: usize = 0x0900;
pub const REG_DC_SYSTIME: usize = 0x0910;
pub const REG_DC_RECV: usize = 0x0918;
pub const REG_DC_OFFSET: usize = 0x0920;
pub const REG_DC_DELAY: usize = 0x0928;
pub const REG_DC_SYNC_ACT: usize = 0x0981;
pub const REG_DC_START: usize = 0x0990;
pub const REG_DC_CYCLE0: usize = 0x09a0;
pub const REG_DC_CYCLE1: usize = 0x09a4;

pub const AL_INIT: u8 = 1;
pub const AL_PREOP: u8 = 2;
pub const AL_BOOT: u8 = 3;
pub const AL_SAFEOP: u8 = 4;
pub const AL_OP: u8 = 8;

#[derive(Clone, Debug, Default)]
pub struct AlScript {
    /// For a request of state `s`: what the device does.
    pub on_request: BTreeMap<u8, AlReaction>,
}

#[derive(Clone, Debug, PartialEq, Eq)]
pub enum AlReaction {
    /// Reach the state after this many reads of the AL status register.
    AcceptAfter(u32),
    /// Stay in the old state, set the error flag and this status code.
    Refuse(u16),
    /// Never react.
    Stall,
    /// Accept (after n polls), then after m further polls fall back to `state` with error + code.
    AcceptThenFallBack { after: u32, then_after: u32, state: u8, code: u16 },
}

#[derive(Clone, Debug)]
pub struct RegWrite {
    pub frame: u64,
    pub dgram: usize,
    pub cmd: u8,
    pub addr: u16,
    pub data: Vec<u8>,
}

#[derive(Clone, Debug, Default)]
pub struct SiiScript {
    /// Busy for this many status polls after each read/write command.
    pub busy_polls: u32,
    /// Stay busy forever.
    pub busy_forever: bool,
    /// The next n write commands fail with the command-error flag (nothing stored).
    pub write_cmd_errors: u32,
    /// Set write-error / checksum-error bits in status until cleared by the master.
    pub sticky_error_bits: u8,
    /// Error-reset writes do not clear the sticky bits.
    pub errors_unclearable: bool,
}

pub struct Device {
    pub desc: DeviceDesc,
    pub mem: Vec<u8>,
    pub eeprom: Vec<u8>,
    pub al_state: u8,
    pub al_error: bool,
    pub al_code: u16,
    pub al_script: AlScript,
    al_pending: Option<(u8, u32)>,
    al_fallback: Option<(u32, u8, u16)>,
    pub al_requests: Vec<(u64, u8)>,
    pub sii_script: SiiScript,
    sii_busy: u32,
    /// data latched by a read command that becomes visible in the data register only when the busy
    /// period is over (as in a real ESC; until then the register holds the previous content)
    sii_pending: Option<Vec<u8>>,
    sii_cmd_error: bool,
    pub sii_reads: u64,
    pub sii_writes: Vec<(u16, [u8; 2])>,
    pub sii_write_attempts: u64,
    pub writes: Vec<RegWrite>,
    pub mailbox: Mailbox,
    /// Links: port -> is a cable plugged (set by the topology).
    pub links: [bool; 4],
    /// Override for the DL status register (C17 arbitrary reports).
    pub dl_status_override: Option<u16>,
    /// Local clock = global time + this (ns).
    pub clock_offset: u64,
    /// Port receive times latched by the last BWR to 0x0900 (local clock, full 64 bit).
    pub latched_ports: [u64; 4],
    pub latched_recv: u64,
    /// Scripted values returned for reads of the system time register (C18).
    pub systime_script: Vec<u64>,
    pub systime_reads: u64,
    pub al_status_reads: u64,
    /// Value of the AL status register at its last read by the master.
    pub last_al_status_read: u16,
    pub present: bool,
}

fn rd16(m: &[u8], a: usize) -> u16 {
    u16::from_le_bytes([m[a], m[a + 1]])
}
fn wr16(m: &mut [u8], a: usize, v: u16) {
    m[a..a + 2].copy_from_slice(&v.to_le_bytes());
}

#[derive(Clone, Copy, Debug)]
pub struct SmReg {
    pub start: u16,
    pub len: u16,
    pub control: u8,
    pub enabled: bool,
}

impl SmReg {
    pub fn mailbox(&self) -> bool {
        self.control & 0x03 == 0x02
    }
    pub fn master_writes(&self) -> bool {
        (self.control >> 2) & 0x03 == 0x01
    }
    pub fn covers(&self, a: usize) -> bool {
        self.enabled && self.len > 0 && a >= self.start as usize && a < self.start as usize + self.len as usize
    }
}

#[derive(Clone, Copy, Debug)]
pub struct FmmuReg {
    pub lstart: u32,
    pub len: u16,
    pub lstart_bit: u8,
    pub lend_bit: u8,
    pub pstart: u16,
    pub pstart_bit: u8,
    pub read: bool,
    pub write: bool,
    pub enabled: bool,
}

impl Device {
    pub fn new(desc: DeviceDesc) -> Self {
        let eeprom = build_sii(&desc);
        let mut d = Device {
            mem: vec![0u8; 0x10000],
            eeprom,
            al_state: AL_INIT,
            al_error: false,
            al_code: 0,
            al_script: AlScript::default(),
            al_pending: None,
            al_fallback: None,
            al_requests: vec![],
            sii_script: SiiScript::default(),
            sii_busy: 0,
            sii_pending: None,
            sii_cmd_error: false,
            sii_reads: 0,
            sii_writes: vec![],
            sii_write_attempts: 0,
            writes: vec![],
            mailbox: Mailbox::new(&desc),
            links: [false; 4],
            dl_status_override: None,
            clock_offset: 0,
            latched_ports: [0; 4],
            latched_recv: 0,
            systime_script: vec![],
            systime_reads: 0,
            al_status_reads: 0,
            last_al_status_read: 0,
            present: true,
            desc,
        };
        d.power_on();
        d
    }

    /// Register defaults after power-on (EEPROM loaded).
    pub fn power_on(&mut self) {
        self.mem[REG_TYPE] = 0x11;
        self.mem[0x0004] = 16; // FMMUs
        self.mem[0x0005] = 16; // SMs
        let mut sf = 0u16;
        if self.desc.dc_supported {
            sf |= 1 << 2;
        }
        if self.desc.dc_64 {
            sf |= 1 << 3;
        }
        if self.desc.dc_enhanced {
            sf |= 1 << 8;
        }
        wr16(&mut self.mem, REG_SUPPORT, sf);
        wr16(&mut self.mem, REG_STATION, self.desc.stale_address);
        let alias = u16::from_le_bytes([self.eeprom[8], self.eeprom[9]]);
        wr16(&mut self.mem, REG_ALIAS, alias);
        self.refresh_status_regs();
    }

    fn refresh_status_regs(&mut self) {
        let v = self.al_state as u16 | ((self.al_error as u16) << 4);
        wr16(&mut self.mem, REG_AL_STATUS, v);
        wr16(&mut self.mem, REG_AL_CODE, self.al_code);
        let dl = self.dl_status_override.unwrap_or_else(|| {
            let mut dl = 0x0001u16; // PDI operational
            for p in 0..4 {
                if self.links[p] {
                    dl |= 1 << (4 + p); // physical link
                    dl |= 1 << (9 + 2 * p); // communication established
                } else {
                    dl |= 1 << (8 + 2 * p); // loop closed
                }
            }
            dl
        });
        wr16(&mut self.mem, REG_DL_STATUS, dl);
        // SII status
        let mut st0 = self.mem[REG_SII_CONTROL] & 0x01;
        if self.desc.sii_read8 {
            st0 |= 1 << 6;
        }
        st0 |= 1 << 7; // two address bytes
        let mut st1 = self.sii_script.sticky_error_bits & 0x58;
        if self.sii_cmd_error {
            st1 |= 1 << 5;
        }
        if self.sii_busy > 0 || self.sii_script.busy_forever && self.sii_reads + self.sii_write_attempts > 0 {
            st1 |= 1 << 7;
        }
        self.mem[REG_SII_CONTROL] = st0;
        self.mem[REG_SII_CONTROL + 1] = st1;
        // SM status bytes (mailbox full flags)
        for i in 0..16 {
            let sm = self.sm(i);
            let mut st = 0u8;
            if sm.enabled && sm.mailbox() {
                let full = if sm.master_writes() { self.mailbox.write_full } else { self.mailbox.read_full };
                if full {
                    st |= 1 << 3;
                }
            }
            self.mem[REG_SM0 + 8 * i + 5] = st;
        }
    }

    pub fn station(&self) -> u16 {
        rd16(&self.mem, REG_STATION)
    }

    pub fn sm(&self, i: usize) -> SmReg {
        let b = REG_SM0 + 8 * i;
        SmReg { start: rd16(&self.mem, b), len: rd16(&self.mem, b + 2), control: self.mem[b + 4], enabled: self.mem[b + 6] & 1 == 1 }
    }

    pub fn fmmu(&self, i: usize) -> FmmuReg {
        let b = REG_FMMU0 + 16 * i;
        let m = &self.mem;
        FmmuReg {
            lstart: u32::from_le_bytes([m[b], m[b + 1], m[b + 2], m[b + 3]]),
            len: rd16(m, b + 4),
            lstart_bit: m[b + 6] & 7,
            lend_bit: m[b + 7] & 7,
            pstart: rd16(m, b + 8),
            pstart_bit: m[b + 10] & 7,
            read: m[b + 11] & 1 != 0,
            write: m[b + 11] & 2 != 0,
            enabled: m[b + 12] & 1 != 0,
        }
    }

    /// Is a physical access to [a, a+len) by the master allowed, and with which side effects?
    /// Returns false when the access must fail (no WKC).
    fn access_ok(&self, a: usize, len: usize, write: bool) -> bool {
        if a + len > 0x10000 {
            return false;
        }
        if a + len > 0x1000 + self.desc.ram_bytes && a + len > 0x1000 {
            return false;
        }
        if a < 0x1000 {
            return true;
        }
        for i in 0..16 {
            let sm = self.sm(i);
            if !sm.enabled || sm.len == 0 {
                continue;
            }
            let (s, e) = (sm.start as usize, sm.start as usize + sm.len as usize);
            let overlap = a < e && a + len > s;
            if !overlap {
                continue;
            }
            if sm.master_writes() != write {
                return false;
            }
            if sm.mailbox() {
                // must start at the beginning, must fit, buffer state must allow it
                if a != s || a + len > e {
                    return false;
                }
                if write && self.mailbox.write_full {
                    return false;
                }
                if !write && !self.mailbox.read_full {
                    return false;
                }
            }
            // Buffered (process data) sync managers: one access may span several adjacent
            // buffers of the same direction (one FMMU over contiguous SMs is common practice);
            // bytes between/around them are plain RAM.
        }
        true
    }

    /// Physical read. Returns data or None (no WKC).
    pub fn read(&mut self, a: usize, len: usize) -> Option<Vec<u8>> {
        if !self.access_ok(a, len, false) {
            return None;
        }
        // pre-read hooks
        if a < REG_AL_STATUS + 2 && a + len > REG_AL_STATUS {
            self.al_status_reads += 1;
            self.al_tick();
        }
        if a < REG_SII_CONTROL + 2 && a + len > REG_SII_CONTROL {
            if self.sii_busy > 0 {
                self.sii_busy -= 1;
            }
            if self.sii_busy == 0 {
                if let Some(p) = self.sii_pending.take() {
                    self.mem[REG_SII_DATA..REG_SII_DATA + p.len()].copy_from_slice(&p);
                }
            }
        }
        if a < REG_DC_SYSTIME + 8 && a + len > REG_DC_SYSTIME && !self.systime_script.is_empty() {
            let i = (self.systime_reads as usize).min(self.systime_script.len() - 1);
            let v = self.systime_script[i];
            self.mem[REG_DC_SYSTIME..REG_DC_SYSTIME + 8].copy_from_slice(&v.to_le_bytes());
            self.systime_reads += 1;
        }
        self.refresh_status_regs();
        if a < REG_AL_STATUS + 2 && a + len > REG_AL_STATUS {
            self.last_al_status_read = rd16(&self.mem, REG_AL_STATUS);
        }
        let out = self.mem[a..a + len].to_vec();
        // post-read: reading the last byte of the read mailbox empties it
        for i in 0..16 {
            let sm = self.sm(i);
            if sm.enabled && sm.mailbox() && !sm.master_writes() && sm.len > 0 {
                let last = sm.start as usize + sm.len as usize - 1;
                if a <= last && a + len > last && a == sm.start as usize {
                    self.mailbox.read_taken();
                    self.mailbox_fill_if_ready();
                }
            }
        }
        Some(out)
    }

    /// Physical write. Returns false if refused (no WKC).
    pub fn write(&mut self, a: usize, data: &[u8], prov: (u64, usize, u8)) -> bool {
        let len = data.len();
        if !self.access_ok(a, len, true) {
            return false;
        }
        self.writes.push(RegWrite { frame: prov.0, dgram: prov.1, cmd: prov.2, addr: a as u16, data: data.to_vec() });
        // read-only registers keep their value
        let ro = |x: usize| x < 0x0010 || (REG_DL_STATUS..REG_DL_STATUS + 2).contains(&x) || (REG_AL_STATUS..REG_AL_STATUS + 6).contains(&x);
        for (i, b) in data.iter().enumerate() {
            if !ro(a + i) {
                self.mem[a + i] = *b;
            }
        }
        // AL control
        if a <= REG_AL_CONTROL && a + len > REG_AL_CONTROL {
            let v = self.mem[REG_AL_CONTROL];
            self.al_request(v & 0x0f, v & 0x10 != 0, prov.0);
        }
        // SII command
        if a <= REG_SII_CONTROL + 1 && a + len > REG_SII_CONTROL + 1 {
            self.sii_command();
        }
        // DC latch: any write to 0x0900 latches port times; done by the network (needs topology)
        // mailbox: writing the last byte of the write mailbox fills it
        for i in 0..16 {
            let sm = self.sm(i);
            if sm.enabled && sm.mailbox() && sm.master_writes() && sm.len > 0 {
                let last = sm.start as usize + sm.len as usize - 1;
                if a == sm.start as usize && a + len > last {
                    let content = self.mem[sm.start as usize..=last].to_vec();
                    self.mailbox.written(content);
                    self.mailbox_fill_if_ready();
                }
            }
        }
        self.refresh_status_regs();
        true
    }

    /// Move a pending mailbox response into the read mailbox buffer if it is empty.
    pub fn mailbox_fill_if_ready(&mut self) {
        let Some(rsm) = (0..16).map(|i| self.sm(i)).find(|s| s.enabled && s.mailbox() && !s.master_writes() && s.len > 0) else {
            return;
        };
        if let Some(bytes) = self.mailbox.take_response_for_buffer(rsm.len as usize) {
            let s = rsm.start as usize;
            self.mem[s..s + bytes.len()].copy_from_slice(&bytes);
        }
        self.refresh_status_regs();
    }

    fn sii_command(&mut self) {
        let c0 = self.mem[REG_SII_CONTROL];
        let c1 = self.mem[REG_SII_CONTROL + 1];
        let addr = rd16(&self.mem, REG_SII_ADDR) as usize;
        // error acknowledge: writing zeros to the error bits clears them
        if c1 & 0x07 == 0 {
            if !self.sii_script.errors_unclearable {
                self.sii_script.sticky_error_bits = 0;
            }
            self.sii_cmd_error = false;
            return;
        }
        if c1 & 0x01 != 0 {
            // read
            self.sii_reads += 1;
            self.sii_cmd_error = false;
            let n = if self.desc.sii_read8 { 8 } else { 4 };
            let data: Vec<u8> = (0..n).map(|i| self.eeprom.get(addr * 2 + i).copied().unwrap_or(0xff)).collect();
            self.sii_busy = self.sii_script.busy_polls;
            if self.sii_busy == 0 || self.sii_script.busy_forever {
                self.mem[REG_SII_DATA..REG_SII_DATA + n].copy_from_slice(&data);
                self.sii_pending = None;
            } else {
                self.sii_pending = Some(data);
            }
        } else if c1 & 0x02 != 0 {
            self.sii_write_attempts += 1;
            if c0 & 0x01 == 0 || self.sii_script.write_cmd_errors > 0 {
                self.sii_script.write_cmd_errors = self.sii_script.write_cmd_errors.saturating_sub(1);
                self.sii_cmd_error = true;
            } else {
                self.sii_cmd_error = false;
                let w = [self.mem[REG_SII_DATA], self.mem[REG_SII_DATA + 1]];
                if addr * 2 + 1 < self.eeprom.len() {
                    self.eeprom[addr * 2] = w[0];
                    self.eeprom[addr * 2 + 1] = w[1];
                }
                self.sii_writes.push((addr as u16, w));
            }
            self.sii_busy = self.sii_script.busy_polls;
        }
        // command bits self-clear
        self.mem[REG_SII_CONTROL + 1] &= !0x07;
    }

    fn al_request(&mut self, req: u8, ack: bool, frame: u64) {
        self.al_requests.push((frame, req));
        if ack {
            self.al_error = false;
            self.al_code = 0;
        }
        if req == self.al_state && !self.al_error {
            self.al_pending = None;
            return;
        }
        // going down to INIT always works at once (that is what the MainDevice's reset relies on)
        let reaction = self.al_script.on_request.get(&req).cloned().unwrap_or(AlReaction::AcceptAfter(0));
        // structural checks an ESC application performs
        let check = self.transition_check(req);
        match (check, reaction) {
            (Some(code), _) => {
                self.al_error = true;
                self.al_code = code;
                self.al_pending = None;
            }
            (None, AlReaction::Refuse(code)) => {
                self.al_error = true;
                self.al_code = code;
                self.al_pending = None;
            }
            (None, AlReaction::Stall) => {
                self.al_pending = None;
            }
            (None, AlReaction::AcceptAfter(n)) => {
                self.al_pending = Some((req, n));
                self.al_fallback = None;
                self.al_tick_immediate();
            }
            (None, AlReaction::AcceptThenFallBack { after, then_after, state, code }) => {
                self.al_pending = Some((req, after));
                self.al_fallback = Some((then_after, state, code));
                self.al_tick_immediate();
            }
        }
        self.refresh_status_regs();
    }

    fn al_tick_immediate(&mut self) {
        if let Some((s, 0)) = self.al_pending {
            self.al_state = s;
            self.al_pending = None;
        }
    }

    /// Called on every read of the AL status register.
    fn al_tick(&mut self) {
        if let Some((s, n)) = self.al_pending {
            if n <= 1 {
                self.al_state = s;
                self.al_pending = None;
            } else {
                self.al_pending = Some((s, n - 1));
            }
        } else if let Some((n, st, code)) = self.al_fallback {
            if n == 0 {
                self.al_state = st;
                self.al_error = true;
                self.al_code = code;
                self.al_fallback = None;
            } else {
                self.al_fallback = Some((n - 1, st, code));
            }
        }
    }

    /// What a conformant ESC application checks before a state change. None = fine.
    fn transition_check(&self, req: u8) -> Option<u16> {
        let up = |from: u8, to: u8| self.al_state == from && req == to;
        if !matches!(req, AL_INIT | AL_PREOP | AL_BOOT | AL_SAFEOP | AL_OP) {
            return Some(0x0012); // unknown requested state
        }
        if up(AL_INIT, AL_SAFEOP) || up(AL_INIT, AL_OP) || up(AL_PREOP, AL_OP) {
            return Some(0x0011); // invalid requested state change
        }
        if up(AL_INIT, AL_PREOP) {
            if let Some((wo, ws, ro, rs)) = self.desc.mailbox {
                if ws > 0 && rs > 0 {
                    let okw = (0..16).map(|i| self.sm(i)).any(|s| s.enabled && s.mailbox() && s.master_writes() && s.start == wo && s.len == ws);
                    let okr = (0..16).map(|i| self.sm(i)).any(|s| s.enabled && s.mailbox() && !s.master_writes() && s.start == ro && s.len == rs);
                    if !okw || !okr {
                        return Some(0x0016); // invalid mailbox configuration
                    }
                }
            }
        }
        if up(AL_PREOP, AL_SAFEOP) {
            for (i, smd) in self.desc.sms.iter().enumerate() {
                if smd.usage < 3 {
                    continue;
                }
                let want = self.desc.sm_pd_bytes(i as u8);
                let sm = self.sm(i);
                let ok = if want == 0 || smd.enable & 1 == 0 { !sm.enabled || sm.len == 0 || sm.len == want } else { sm.enabled && sm.start == smd.start && sm.len == want };
                if !ok {
                    return Some(if smd.usage == 3 { 0x001d } else { 0x001e });
                }
            }
        }
        None
    }
}
