//! Device descriptions and the independent SII (EEPROM) image builder (ETG.2010 layout).
//!
//! A `DeviceDesc` is the ground truth: the SII image, the object dictionary and the ESC feature
//! set of a simulated SubDevice are all derived from it, and the oracles compare what ethercrab
//! reports / programs with it.

use crate::prng::Rng;

#[derive(Clone, Debug, PartialEq, Eq)]
pub struct SmDesc {
    pub start: u16,
    /// Length as stored in the SII (for mailboxes the real size; for process data SMs the default
    /// length, which the MainDevice overwrites).
    pub len: u16,
    /// Control byte: bits0-1 mode (0 buffered, 2 mailbox), bits2-3 direction (0 read by master,
    /// 1 written by master), ...
    pub control: u8,
    pub enable: u8,
    /// 1 mbx write, 2 mbx read, 3 process data outputs (master writes), 4 inputs (master reads).
    pub usage: u8,
}

#[derive(Clone, Debug, PartialEq, Eq)]
pub struct PdoEntryDesc {
    pub index: u16,
    pub sub: u8,
    pub bits: u8,
}

#[derive(Clone, Debug, PartialEq, Eq)]
pub struct PdoDesc {
    pub index: u16,
    pub sm: u8,
    pub entries: Vec<PdoEntryDesc>,
    /// true = TxPDO (inputs, master reads), false = RxPDO (outputs).
    pub tx: bool,
}

impl PdoDesc {
    pub fn bits(&self) -> u32 {
        self.entries.iter().map(|e| e.bits as u32).sum()
    }
}

#[derive(Clone, Debug, PartialEq, Eq)]
pub struct DeviceDesc {
    pub vendor: u32,
    pub product: u32,
    pub revision: u32,
    pub serial: u32,
    pub alias: u16,
    /// Strings of the strings category (1-based indices refer to these).
    pub strings: Vec<Vec<u8>>,
    pub group_idx: u8,
    pub image_idx: u8,
    pub order_idx: u8,
    pub name_idx: u8,
    pub has_general: bool,
    pub coe_details: u8,
    pub general_flags: u8,
    /// Standard mailbox: (write/receive offset, size, read/send offset, size), protocols.
    pub mailbox: Option<(u16, u16, u16, u16)>,
    pub mailbox_protocols: u16,
    pub sms: Vec<SmDesc>,
    pub fmmus: Vec<u8>,
    pub fmmu_ex: Vec<u8>,
    pub pdos: Vec<PdoDesc>,
    /// Size of the EEPROM in bytes (power of two >= 128).
    pub eeprom_bytes: usize,
    /// Unknown / vendor categories (type, payload words) interleaved before the known ones.
    pub extra_categories: Vec<(u16, Vec<u8>)>,
    /// Order in which the known categories are emitted (permutation of 0..7).
    pub category_order: Vec<u8>,
    // ---- ESC features
    pub dc_supported: bool,
    pub dc_64: bool,
    pub dc_enhanced: bool,
    /// 8 byte SII reads (else 4).
    pub sii_read8: bool,
    /// Ports with a physical link capability (bit per port 0..3); actual links come from topology.
    pub ram_bytes: usize,
    /// Station address held before init (stale).
    pub stale_address: u16,
    /// Serve PDO configuration through CoE (object dictionary 0x1C1x / 0x16xx / 0x1Axx).
    pub coe_pdo: bool,
    /// Oversampling factors per PDO index the application expects (C08).
    pub oversampling: Vec<(u16, u16)>,
    /// The SII SyncManager category leaves the type byte 0 ("unknown", as older SII images do): the
    /// purpose of a sync manager then follows from its control byte (mode + direction).
    pub sii_untyped_sms: bool,
}

pub const CAT_STRINGS: u16 = 10;
pub const CAT_GENERAL: u16 = 30;
pub const CAT_FMMU: u16 = 40;
pub const CAT_SM: u16 = 41;
pub const CAT_FMMU_EX: u16 = 42;
pub const CAT_TXPDO: u16 = 50;
pub const CAT_RXPDO: u16 = 51;
pub const CAT_DC: u16 = 60;

pub const MBX_COE: u16 = 0x0004;

impl DeviceDesc {
    /// A plain device without mailbox and PDOs.
    pub fn simple(name: &str) -> Self {
        DeviceDesc {
            vendor: 2,
            product: 0x044c_2c52,
            revision: 0x0011_0000,
            serial: 0,
            alias: 0,
            strings: vec![name.as_bytes().to_vec(), b"Group".to_vec(), format!("{name} long description").into_bytes()],
            group_idx: 2,
            image_idx: 0,
            order_idx: 1,
            name_idx: 3,
            has_general: true,
            coe_details: 0,
            general_flags: 0,
            mailbox: None,
            mailbox_protocols: 0,
            sms: vec![],
            fmmus: vec![],
            fmmu_ex: vec![],
            pdos: vec![],
            eeprom_bytes: 2048,
            extra_categories: vec![],
            category_order: (0..8).collect(),
            dc_supported: false,
            dc_64: false,
            dc_enhanced: false,
            sii_read8: false,
            ram_bytes: 8192,
            stale_address: 0,
            coe_pdo: false,
            oversampling: vec![],
            sii_untyped_sms: false,
        }
    }

    /// Expected byte length of the process data behind sync manager `sm` (from the PDO list).
    pub fn sm_pd_bytes(&self, sm: u8) -> u16 {
        let bits: u32 = self.pdos.iter().filter(|p| p.sm == sm).map(|p| p.bits() * self.oversampling.iter().find(|(i, _)| *i == p.index).map_or(1, |(_, f)| *f as u32)).sum();
        bits.div_ceil(8) as u16
    }

    pub fn input_bytes(&self) -> usize {
        self.sms.iter().enumerate().filter(|(_, s)| s.usage == 4).map(|(i, _)| self.sm_pd_bytes(i as u8) as usize).sum()
    }

    pub fn output_bytes(&self) -> usize {
        self.sms.iter().enumerate().filter(|(_, s)| s.usage == 3).map(|(i, _)| self.sm_pd_bytes(i as u8) as usize).sum()
    }

    pub fn name(&self) -> Option<String> {
        self.string(self.order_idx)
    }

    /// What ethercrab should report for string index `idx` (1-based; NULs removed, non-ASCII
    /// replaced by '?').
    pub fn string(&self, idx: u8) -> Option<String> {
        if idx == 0 || !self.category_present(CAT_STRINGS) {
            return None;
        }
        self.strings.get(idx as usize - 1).map(|s| s.iter().filter(|c| **c != 0).map(|c| if c.is_ascii() { *c as char } else { '?' }).collect())
    }

    pub fn category_present(&self, cat: u16) -> bool {
        match cat {
            CAT_STRINGS => !self.strings.is_empty(),
            CAT_GENERAL => self.has_general,
            CAT_FMMU => !self.fmmus.is_empty(),
            CAT_SM => !self.sms.is_empty(),
            CAT_FMMU_EX => !self.fmmu_ex.is_empty(),
            CAT_TXPDO => self.pdos.iter().any(|p| p.tx),
            CAT_RXPDO => self.pdos.iter().any(|p| !p.tx),
            _ => false,
        }
    }
}

/// CRC-8, polynomial 0x07, initial value 0xFF, no reflection (ETG.1000.6 SII checksum), written
/// independently of the `crc` crate ethercrab uses.
pub fn crc8_sii(bytes: &[u8]) -> u8 {
    let mut crc = 0xffu8;
    for b in bytes {
        crc ^= *b;
        for _ in 0..8 {
            crc = if crc & 0x80 != 0 { (crc << 1) ^ 0x07 } else { crc << 1 };
        }
    }
    crc
}

fn put16(v: &mut [u8], word: usize, val: u16) {
    v[word * 2..word * 2 + 2].copy_from_slice(&val.to_le_bytes());
}

fn put32(v: &mut [u8], word: usize, val: u32) {
    v[word * 2..word * 2 + 4].copy_from_slice(&val.to_le_bytes());
}

/// Category payloads (unpadded) in the fixed order strings, general, fmmu, sm, fmmu_ex, txpdo,
/// rxpdo, dc.
fn category_payloads(d: &DeviceDesc) -> Vec<(u16, Vec<u8>)> {
    let mut out = vec![];
    if !d.strings.is_empty() {
        let mut p = vec![d.strings.len() as u8];
        for s in &d.strings {
            p.push(s.len() as u8);
            p.extend_from_slice(s);
        }
        out.push((CAT_STRINGS, p));
    }
    if d.has_general {
        let mut p = vec![0u8; 32];
        p[0] = d.group_idx;
        p[1] = d.image_idx;
        p[2] = d.order_idx;
        p[3] = d.name_idx;
        p[5] = d.coe_details;
        p[11] = d.general_flags;
        out.push((CAT_GENERAL, p));
    }
    if !d.fmmus.is_empty() {
        out.push((CAT_FMMU, d.fmmus.clone()));
    }
    if !d.sms.is_empty() {
        let mut p = vec![];
        for s in &d.sms {
            p.extend_from_slice(&s.start.to_le_bytes());
            p.extend_from_slice(&s.len.to_le_bytes());
            p.push(s.control);
            p.push(0);
            p.push(s.enable);
            p.push(if d.sii_untyped_sms { 0 } else { s.usage });
        }
        out.push((CAT_SM, p));
    }
    if !d.fmmu_ex.is_empty() {
        let mut p = vec![];
        for sm in &d.fmmu_ex {
            p.extend_from_slice(&[0, *sm, 0]);
        }
        out.push((CAT_FMMU_EX, p));
    }
    for tx in [true, false] {
        let pdos: Vec<&PdoDesc> = d.pdos.iter().filter(|p| p.tx == tx).collect();
        if pdos.is_empty() {
            continue;
        }
        let mut p = vec![];
        for pdo in pdos {
            p.extend_from_slice(&pdo.index.to_le_bytes());
            p.push(pdo.entries.len() as u8);
            p.push(pdo.sm);
            p.push(0); // DC sync
            p.push(0); // name idx
            p.extend_from_slice(&0u16.to_le_bytes()); // flags
            for e in &pdo.entries {
                p.extend_from_slice(&e.index.to_le_bytes());
                p.push(e.sub);
                p.push(0); // name idx
                p.push(0x07); // data type
                p.push(e.bits);
                p.extend_from_slice(&0u16.to_le_bytes());
            }
        }
        out.push((if tx { CAT_TXPDO } else { CAT_RXPDO }, p));
    }
    out
}

/// Build the SII image. Returns the image (exactly `eeprom_bytes` long when everything fits,
/// longer otherwise — callers treat an overlong image as "description too big").
pub fn build_sii(d: &DeviceDesc) -> Vec<u8> {
    let mut v = vec![0u8; 0x80];
    put16(&mut v, 0, 0x0c08); // PDI control
    put16(&mut v, 1, 0x0000);
    put16(&mut v, 2, 0x0064);
    put16(&mut v, 4, d.alias);
    let c = crc8_sii(&v[0..14]);
    put16(&mut v, 7, c as u16);
    put32(&mut v, 8, d.vendor);
    put32(&mut v, 0xa, d.product);
    put32(&mut v, 0xc, d.revision);
    put32(&mut v, 0xe, d.serial);
    if let Some((wo, ws, ro, rs)) = d.mailbox {
        put16(&mut v, 0x18, wo);
        put16(&mut v, 0x19, ws);
        put16(&mut v, 0x1a, ro);
        put16(&mut v, 0x1b, rs);
    }
    put16(&mut v, 0x1c, d.mailbox_protocols);
    put16(&mut v, 0x3e, (d.eeprom_bytes / 128 - 1) as u16);
    put16(&mut v, 0x3f, 1);

    let known = category_payloads(d);
    // Emit in the requested order, unknown categories interleaved.
    let mut ordered: Vec<(u16, Vec<u8>)> = vec![];
    let fixed = [CAT_STRINGS, CAT_GENERAL, CAT_FMMU, CAT_SM, CAT_FMMU_EX, CAT_TXPDO, CAT_RXPDO, CAT_DC];
    let mut extras = d.extra_categories.clone().into_iter();
    for k in &d.category_order {
        if let Some(e) = extras.next() {
            ordered.push(e);
        }
        let ty = fixed[*k as usize % 8];
        if let Some(c) = known.iter().find(|(t, _)| *t == ty) {
            ordered.push(c.clone());
        }
    }
    ordered.extend(extras);
    for (ty, mut payload) in ordered {
        if payload.len() % 2 == 1 {
            // pad byte: 0xff is "unused" for the FMMU category and harmless elsewhere
            payload.push(if ty == CAT_FMMU { 0xff } else { 0x00 });
        }
        v.extend_from_slice(&ty.to_le_bytes());
        v.extend_from_slice(&((payload.len() / 2) as u16).to_le_bytes());
        v.extend_from_slice(&payload);
    }
    v.extend_from_slice(&0xffffu16.to_le_bytes());
    v.extend_from_slice(&0xffffu16.to_le_bytes());
    if v.len() < d.eeprom_bytes {
        v.resize(d.eeprom_bytes, 0xff);
    }
    v
}

/// Random device description for the EEPROM/config properties.
pub struct GenOpts {
    pub max_strings: usize,
    pub max_string_len: usize,
    pub max_pdos: usize,
    pub max_entries: usize,
    pub mailbox: bool,
    pub nasty_strings: bool,
    pub max_sms: usize,
}

impl Default for GenOpts {
    fn default() -> Self {
        GenOpts { max_strings: 8, max_string_len: 40, max_pdos: 6, max_entries: 6, mailbox: true, nasty_strings: false, max_sms: 6 }
    }
}

pub fn gen_desc(rng: &mut Rng, o: &GenOpts) -> DeviceDesc {
    let mut d = DeviceDesc::simple("DEV");
    d.vendor = rng.u32();
    d.product = rng.u32();
    d.revision = rng.u32();
    d.serial = rng.u32();
    d.alias = if rng.bool() { rng.u16() } else { 0 };
    let ns = rng.usize_below(o.max_strings + 1);
    d.strings = (0..ns)
        .map(|_| {
            let l = rng.edgy(0, o.max_string_len as u64) as usize;
            (0..l)
                .map(|_| {
                    if o.nasty_strings && rng.chance(1, 8) {
                        *rng.pick(&[0u8, 0xb5, 0xff, 0x80, b' '])
                    } else {
                        rng.range(0x20, 0x7e) as u8
                    }
                })
                .collect()
        })
        .collect();
    let pick_idx = |rng: &mut Rng| if ns == 0 { rng.below(3) as u8 } else { rng.below(ns as u64 + 2) as u8 };
    d.group_idx = pick_idx(rng);
    d.image_idx = pick_idx(rng);
    d.order_idx = pick_idx(rng);
    d.name_idx = pick_idx(rng);
    d.has_general = rng.chance(7, 8);
    d.coe_details = (rng.u8() & 0x3f) & if rng.bool() { 0xff } else { 0x01 };
    d.general_flags = rng.u8() & 0x1f;
    d.sii_read8 = rng.bool();
    d.dc_supported = rng.bool();
    d.dc_64 = rng.bool();
    d.dc_enhanced = rng.bool();
    d.stale_address = if rng.bool() { rng.u16() } else { 0x1000 + rng.below(8) as u16 };

    // Sync managers: optional mailbox pair first, then process data.
    let mut ram = 0x1000u16;
    let with_mbx = o.mailbox && rng.bool();
    if with_mbx {
        let ws = *rng.pick(&[32u16, 64, 128, 256, 512]);
        let rs = *rng.pick(&[32u16, 64, 128, 256, 512]);
        d.sms.push(SmDesc { start: ram, len: ws, control: 0x26, enable: 1, usage: 1 });
        let wo = ram;
        ram += ws;
        d.sms.push(SmDesc { start: ram, len: rs, control: 0x22, enable: 1, usage: 2 });
        let ro = ram;
        ram += rs;
        d.mailbox = Some((wo, ws, ro, rs));
        d.mailbox_protocols = if rng.chance(3, 4) { MBX_COE } else { 0x0008 };
    }
    let npd = rng.usize_below(o.max_sms.saturating_sub(d.sms.len()) + 1);
    for _ in 0..npd {
        let out = rng.bool();
        d.sms.push(SmDesc { start: ram, len: 0, control: if out { 0x64 } else { 0x20 }, enable: if rng.chance(7, 8) { 1 } else { 0 }, usage: if out { 3 } else { 4 } });
        ram = ram.wrapping_add(0x100);
    }
    // PDOs
    let np = rng.usize_below(o.max_pdos + 1);
    for k in 0..np {
        let pd_sms: Vec<usize> = (0..d.sms.len()).filter(|i| d.sms[*i].usage >= 3).collect();
        if pd_sms.is_empty() {
            break;
        }
        let sm = *rng.pick(&pd_sms);
        let tx = d.sms[sm].usage == 4;
        let ne = rng.usize_below(o.max_entries + 1);
        let entries = (0..ne).map(|e| PdoEntryDesc { index: 0x6000 + k as u16, sub: e as u8 + 1, bits: rng.edgy(1, 64) as u8 }).collect();
        d.pdos.push(PdoDesc { index: if tx { 0x1a00 } else { 0x1600 } + k as u16, sm: sm as u8, entries, tx });
    }
    // fix up SII default lengths of process data SMs
    for i in 0..d.sms.len() {
        if d.sms[i].usage >= 3 {
            d.sms[i].len = d.sm_pd_bytes(i as u8);
        }
    }
    // FMMU usage list: one per direction that exists, plus noise
    let nf = rng.usize_below(5);
    d.fmmus = (0..nf).map(|_| *rng.pick(&[0u8, 1, 2, 3, 1, 2])).collect();
    if rng.chance(1, 3) {
        d.fmmu_ex = (0..rng.usize_below(4)).map(|_| rng.below(d.sms.len().max(1) as u64) as u8).collect();
    }
    // unknown / vendor / NOP categories between the known ones; a quarter of them empty (a
    // zero-length category is legal and must simply be stepped over), occasionally a run of them
    let ne = *rng.pick(&[0usize, 1, 2, 2, 3, 6]);
    d.extra_categories = (0..ne)
        .map(|_| {
            let ty = *rng.pick(&[0u16, 1, 5, 9, 20, 43, 60, 0x0800, 0x1234, 0x7fff]);
            let l = if rng.chance(1, 4) { 0 } else { rng.usize_below(12) * 2 };
            (ty, rng.bytes(l))
        })
        .collect();
    let mut order: Vec<u8> = (0..8).collect();
    if rng.bool() {
        rng.shuffle(&mut order);
    }
    d.category_order = order;
    d.eeprom_bytes = *rng.pick(&[128usize << 0, 256, 1024, 2048, 4096, 16384]);
    let need = build_sii(&d).len();
    while d.eeprom_bytes < need {
        d.eeprom_bytes *= 2;
    }
    d
}

/// Device with process data for the mapping properties (C07/C08/C20).
pub struct PdOpts {
    pub coe: bool,
    pub max_pdos: usize,
    pub max_sms_per_dir: usize,
    pub contiguous: bool,
    pub fmmu_ex: bool,
}

pub fn gen_pd_desc(rng: &mut Rng, o: &PdOpts) -> DeviceDesc {
    let mut d = DeviceDesc::simple("PD");
    d.serial = rng.u32();
    d.sii_read8 = rng.bool();
    let mut ram = 0x1000u16;
    if o.coe {
        d.mailbox = Some((ram, 128, ram + 128, 128));
        d.mailbox_protocols = MBX_COE;
        d.sms.push(SmDesc { start: ram, len: 128, control: 0x26, enable: 1, usage: 1 });
        d.sms.push(SmDesc { start: ram + 128, len: 128, control: 0x22, enable: 1, usage: 2 });
        ram += 256;
        d.coe_pdo = true;
        d.coe_details = 0x0f;
    }
    let n_out = rng.usize_below(o.max_sms_per_dir + 1);
    let n_in = rng.usize_below(o.max_sms_per_dir + 1);
    // outputs first (conventional SM2 = outputs, SM3 = inputs), sometimes the other way round
    let mut dirs: Vec<u8> = std::iter::repeat(3u8).take(n_out).chain(std::iter::repeat(4u8).take(n_in)).collect();
    if rng.chance(1, 4) {
        rng.shuffle(&mut dirs);
    }
    for usage in dirs {
        d.sms.push(SmDesc { start: 0, len: 0, control: if usage == 3 { 0x64 } else { 0x20 }, enable: 1, usage });
    }
    // PDOs
    for dir in [3u8, 4u8] {
        let sms: Vec<usize> = (0..d.sms.len()).filter(|i| d.sms[*i].usage == dir).collect();
        if sms.is_empty() {
            continue;
        }
        let np = rng.usize_below(o.max_pdos + 1);
        for k in 0..np {
            let sm = *rng.pick(&sms);
            let ne = 1 + rng.usize_below(4);
            let base = if dir == 4 { 0x1a00 } else { 0x1600 };
            d.pdos.push(PdoDesc { index: base + k as u16, sm: sm as u8, tx: dir == 4, entries: (0..ne).map(|e| PdoEntryDesc { index: 0x6000 + k as u16, sub: e as u8 + 1, bits: rng.edgy(1, 64) as u8 }).collect() });
        }
    }
    // optional PDOs that are not assigned to any sync manager (SM field 0xff, as in real ESI/SII
    // files) or that name a sync manager of the other kind / one that does not exist: they must not
    // count towards any process data length
    if o.max_pdos > 0 && rng.chance(1, 3) {
        for k in 0..1 + rng.usize_below(2) {
            let tx = rng.bool();
            let base = if tx { 0x1a80 } else { 0x1680 };
            let foreign: Vec<u8> = (0..d.sms.len() as u8).filter(|i| d.sms[*i as usize].usage < 3).chain([0xffu8, 0xff, d.sms.len() as u8 + rng.below(4) as u8]).collect();
            let sm = *rng.pick(&foreign);
            d.pdos.push(PdoDesc { index: base + k as u16, sm, tx, entries: (0..1 + rng.usize_below(3)).map(|e| PdoEntryDesc { index: 0x7000 + k as u16, sub: e as u8 + 1, bits: rng.edgy(1, 64) as u8 }).collect() });
        }
    }
    // physical placement of the process data buffers: in sync manager order and back to back
    // (`contiguous`), or in any order with each buffer either directly behind the previously placed
    // one or after a gap - so that e.g. SM4's buffer can start exactly where SM2's ends while SM3's
    // lies somewhere else
    let mut order: Vec<usize> = (0..d.sms.len()).filter(|i| d.sms[*i].usage >= 3).collect();
    if !o.contiguous && rng.bool() {
        rng.shuffle(&mut order);
    }
    for i in order {
        let len = d.sm_pd_bytes(i as u8);
        d.sms[i].start = ram;
        d.sms[i].len = len;
        ram += if o.contiguous || rng.chance(1, 3) { len } else { len + 3 * 16 + rng.below(64) as u16 };
    }
    // one FMMU per process data sync manager (a device needing two non-contiguous buffers in one
    // direction has two FMMUs for it), in either order, optionally a mailbox-state FMMU
    let n_o = d.sms.iter().filter(|s| s.usage == 3).count().max(1);
    let n_i = d.sms.iter().filter(|s| s.usage == 4).count().max(1);
    let mut f: Vec<u8> = std::iter::repeat(1u8).take(n_o).chain(std::iter::repeat(2u8).take(n_i)).collect();
    if rng.bool() {
        f.reverse();
    }
    if rng.bool() {
        f.push(3);
    }
    d.fmmus = f;
    if o.fmmu_ex {
        d.fmmu_ex = (0..d.sms.len() as u8).collect();
    }
    d.sii_untyped_sms = rng.chance(1, 6);
    d.eeprom_bytes = build_sii(&d).len().next_power_of_two().max(2048);
    d
}

/// Does some direction have three or more non-empty process-data sync managers of which a later one
/// (in index order) starts exactly where an earlier, non-neighbouring one ends?
pub fn sm_adjacent_to_non_neighbour(d: &DeviceDesc) -> bool {
    [3u8, 4].iter().any(|u| {
        let same: Vec<&SmDesc> = d.sms.iter().enumerate().filter(|(i, s)| s.usage == *u && d.sm_pd_bytes(*i as u8) > 0).map(|(_, s)| s).collect();
        same.len() >= 3 && (0..same.len()).any(|a| (a + 2..same.len()).any(|c| same[a].start + same[a].len == same[c].start))
    })
}

/// Rejection-sampled device of the family above (falls back to whatever the last try gave).
pub fn gen_pd_desc_three_sm(rng: &mut Rng, coe: bool, fmmu_ex: bool) -> DeviceDesc {
    let o = PdOpts { coe, max_pdos: 8, max_sms_per_dir: 3, contiguous: false, fmmu_ex };
    let mut d = gen_pd_desc(rng, &o);
    for _ in 0..200 {
        if sm_adjacent_to_non_neighbour(&d) {
            break;
        }
        d = gen_pd_desc(rng, &o);
    }
    d
}

/// Independent SII *decoder* (ETG.2010 layout, written from the specification, not from
/// ethercrab's parser): turns an image — a generated one or a real device's dump — back into the
/// description fields the C12 oracle compares. `None` when the category chain is not well formed.
pub fn decode_sii(image: &[u8]) -> Option<DeviceDesc> {
    let w16 = |word: usize| -> Option<u16> { image.get(word * 2..word * 2 + 2).map(|b| u16::from_le_bytes([b[0], b[1]])) };
    let w32 = |word: usize| -> Option<u32> { image.get(word * 2..word * 2 + 4).map(|b| u32::from_le_bytes([b[0], b[1], b[2], b[3]])) };
    let mut d = DeviceDesc::simple("");
    d.strings.clear();
    d.has_general = false;
    d.category_order.clear();
    d.alias = w16(4)?;
    d.vendor = w32(8)?;
    d.product = w32(0xa)?;
    d.revision = w32(0xc)?;
    d.serial = w32(0xe)?;
    let mbx = (w16(0x18)?, w16(0x19)?, w16(0x1a)?, w16(0x1b)?);
    d.mailbox = if mbx == (0, 0, 0, 0) { None } else { Some(mbx) };
    d.mailbox_protocols = w16(0x1c)?;
    d.eeprom_bytes = (w16(0x3e)? as usize + 1) * 128;
    let mut word = 0x40usize;
    loop {
        let ty = w16(word)?;
        if ty == 0xffff {
            break;
        }
        let len_words = w16(word + 1)? as usize;
        let data = image.get((word + 2) * 2..(word + 2 + len_words) * 2)?;
        match ty {
            CAT_STRINGS => {
                let n = *data.first()? as usize;
                let mut pos = 1;
                for _ in 0..n {
                    let l = *data.get(pos)? as usize;
                    d.strings.push(data.get(pos + 1..pos + 1 + l)?.to_vec());
                    pos += 1 + l;
                }
            }
            CAT_GENERAL => {
                d.has_general = true;
                d.group_idx = *data.first()?;
                d.image_idx = *data.get(1)?;
                d.order_idx = *data.get(2)?;
                d.name_idx = *data.get(3)?;
                d.coe_details = *data.get(5)?;
                d.general_flags = *data.get(11)?;
            }
            CAT_FMMU => d.fmmus = data.to_vec(),
            CAT_SM => {
                for c in data.chunks_exact(8) {
                    d.sms.push(SmDesc { start: u16::from_le_bytes([c[0], c[1]]), len: u16::from_le_bytes([c[2], c[3]]), control: c[4], enable: c[6], usage: c[7] });
                }
            }
            CAT_FMMU_EX => d.fmmu_ex = data.chunks_exact(3).map(|c| c[1]).collect(),
            CAT_TXPDO | CAT_RXPDO => {
                let mut pos = 0;
                while pos + 8 <= data.len() {
                    let index = u16::from_le_bytes([data[pos], data[pos + 1]]);
                    let n = data[pos + 2] as usize;
                    let sm = data[pos + 3];
                    pos += 8;
                    let mut entries = vec![];
                    for _ in 0..n {
                        let e = data.get(pos..pos + 8)?;
                        entries.push(PdoEntryDesc { index: u16::from_le_bytes([e[0], e[1]]), sub: e[2], bits: e[5] });
                        pos += 8;
                    }
                    d.pdos.push(PdoDesc { index, sm, entries, tx: ty == CAT_TXPDO });
                }
            }
            _ => {}
        }
        word += 2 + len_words;
    }
    Some(d)
}
