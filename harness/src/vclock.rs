//! Virtual clock: an `embassy-time` driver whose `now()` is a counter the harness advances.
//!
//! ethercrab built with `default-features = false` takes all its timers from `embassy_time`, so
//! every PDU / mailbox / EEPROM / state-transition deadline fires at a logical instant chosen by
//! the harness, deterministically and at no wall-clock cost. Tick rate is embassy's default 1 MHz,
//! i.e. one tick = 1 µs.

use core::task::Waker;
use std::sync::Mutex;
use std::sync::atomic::{AtomicU64, Ordering};

pub struct VDriver {
    now: AtomicU64,
    queue: Mutex<Vec<(u64, Waker)>>,
    scheduled: AtomicU64,
}

impl embassy_time_driver::Driver for VDriver {
    fn now(&self) -> u64 {
        self.now.load(Ordering::SeqCst)
    }

    fn schedule_wake(&self, at: u64, waker: &Waker) {
        self.scheduled.fetch_add(1, Ordering::Relaxed);

        if at <= self.now.load(Ordering::SeqCst) {
            waker.wake_by_ref();
            return;
        }

        let mut q = self.queue.lock().unwrap();

        // One entry per waker is enough: keep the earliest deadline for wakers that would wake the
        // same task, but keep it simple and bounded.
        if q.len() > 4096 {
            q.retain(|(t, _)| *t > self.now.load(Ordering::SeqCst));
        }

        q.push((at, waker.clone()));
    }
}

embassy_time_driver::time_driver_impl!(static DRIVER: VDriver = VDriver {
    now: AtomicU64::new(0),
    queue: Mutex::new(Vec::new()),
    scheduled: AtomicU64::new(0),
});

/// Current virtual time in µs.
pub fn now() -> u64 {
    DRIVER.now.load(Ordering::SeqCst)
}

/// Reset the clock to `t` and forget all pending wake-ups (between executions).
pub fn reset(t: u64) {
    DRIVER.queue.lock().unwrap().clear();
    DRIVER.now.store(t, Ordering::SeqCst);
}

/// Earliest pending timer deadline strictly after `now`, if any.
pub fn next_deadline() -> Option<u64> {
    let now = now();
    DRIVER
        .queue
        .lock()
        .unwrap()
        .iter()
        .map(|(t, _)| *t)
        .filter(|t| *t > now)
        .min()
}

/// Advance to `t` (never backwards) and wake everything that is due.
pub fn advance_to(t: u64) {
    let cur = now();
    let t = t.max(cur);
    DRIVER.now.store(t, Ordering::SeqCst);

    let due: Vec<Waker> = {
        let mut q = DRIVER.queue.lock().unwrap();
        let mut due = Vec::new();
        let mut i = 0;
        while i < q.len() {
            if q[i].0 <= t {
                due.push(q.swap_remove(i).1);
            } else {
                i += 1;
            }
        }
        due
    };

    for w in due {
        w.wake();
    }
}

pub fn advance_by(dt: u64) {
    advance_to(now().saturating_add(dt));
}

/// Number of timers ever scheduled (evidence counter).
pub fn timers_scheduled() -> u64 {
    DRIVER.scheduled.load(Ordering::Relaxed)
}
