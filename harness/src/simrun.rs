//! Glue: a `MainDevice` wired to a simulated segment, plus small oracle helpers.

use crate::sim::{Net, Sim};
use crate::vclock;
use ethercrab::{MainDevice, MainDeviceConfig, PduStorage, RetryBehaviour, Timeouts};
use std::time::Duration;

pub const SLOTS: usize = 16;
pub const FRAME_MAX: usize = 1514;

#[derive(Clone, Debug)]
pub struct MdCfg {
    pub frame_len: usize,
    pub timeouts: Timeouts,
    pub retries: RetryBehaviour,
    pub dc_static_sync_iterations: u32,
}

impl Default for MdCfg {
    fn default() -> Self {
        MdCfg {
            frame_len: FRAME_MAX,
            timeouts: Timeouts {
                state_transition: Duration::from_millis(50),
                pdu: Duration::from_micros(2_000),
                eeprom: Duration::from_millis(5),
                wait_loop_delay: Duration::from_micros(100),
                mailbox_echo: Duration::from_millis(10),
                mailbox_response: Duration::from_millis(20),
            },
            retries: RetryBehaviour::None,
            dc_static_sync_iterations: 3,
        }
    }
}

/// Run `f` with a fresh storage, MainDevice and simulator. Virtual time restarts at 1 ms.
pub fn with_sim<R>(net: Net, seed: u64, cfg: &MdCfg, f: impl for<'a> FnOnce(&'a MainDevice<'a>, &mut Sim<'a>) -> R) -> R {
    with_sim_n::<SLOTS, R>(net, seed, cfg, f)
}

/// As `with_sim`, with `N` frame slots.
pub fn with_sim_n<const N: usize, R>(net: Net, seed: u64, cfg: &MdCfg, f: impl for<'a> FnOnce(&'a MainDevice<'a>, &mut Sim<'a>) -> R) -> R {
    vclock::reset(1_000);
    let storage = Box::new(PduStorage::<N, FRAME_MAX>::new());
    let (tx, rx, pl) = storage.verif_try_split_with_len(cfg.frame_len).expect("split");
    let md = MainDevice::new(pl, cfg.timeouts, MainDeviceConfig { dc_static_sync_iterations: cfg.dc_static_sync_iterations, retry_behaviour: cfg.retries });
    let mut sim = Sim::new(tx, rx, net, seed);
    let r = f(&md, &mut sim);
    vclock::reset(0);
    r
}

pub fn variant(e: &ethercrab::error::Error) -> String {
    let s = format!("{e:?}");
    s.split(|c: char| c == ' ' || c == '{').next().unwrap_or("").to_string()
}

/// Run a closure on a thread with a large stack (some ethercrab entry points keep several hundred
/// KiB of heapless buffers on the stack); a stack overflow would abort the process and could be
/// mistaken for a verdict otherwise.
pub fn big_stack<R: Send + 'static>(f: impl FnOnce() -> R + Send + 'static) -> std::thread::Result<R> {
    std::thread::Builder::new().stack_size(1 << 30).spawn(f).expect("spawn").join()
}
