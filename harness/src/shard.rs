//! Per-process result collection. Every check binary runs as one shard of a property check,
//! collects what its monitors observed and writes one JSON file that `/verif/check` aggregates
//! into `/verif/evidence/<id>.json`.

use crate::prng::Rng;
use serde_json::{Value, json};
use std::collections::{BTreeMap, HashSet};

#[derive(Clone, Debug)]
pub struct Args {
    pub seed: u64,
    pub shard: u64,
    pub shards: u64,
    pub tier: String,
    pub out: String,
    /// Run only this case index (replay).
    pub only_case: Option<u64>,
    /// Scale factor on the number of cases (driver may shrink for Miri / sanitizer builds).
    pub scale_pct: u64,
    /// Total number of cases over all shards, whatever the tier (Miri / sanitizer runs).
    pub cases_total: Option<u64>,
    /// Added to every case id (so a slow sanitizer run explores other cases than the native run).
    pub case_offset: u64,
    pub extra: BTreeMap<String, String>,
}

impl Args {
    pub fn parse() -> Self {
        let mut a = Args {
            seed: 1,
            shard: 0,
            shards: 1,
            tier: "quick".into(),
            out: String::new(),
            only_case: None,
            scale_pct: 100,
            cases_total: None,
            case_offset: 0,
            extra: BTreeMap::new(),
        };
        let mut it = std::env::args().skip(1);
        while let Some(k) = it.next() {
            let mut val = || it.next().unwrap_or_else(|| panic!("missing value for {k}"));
            match k.as_str() {
                "--seed" => a.seed = val().parse().expect("seed"),
                "--shard" => {
                    let v = val();
                    let (i, n) = v.split_once('/').expect("--shard i/n");
                    a.shard = i.parse().unwrap();
                    a.shards = n.parse().unwrap();
                }
                "--tier" => a.tier = val(),
                "--out" => a.out = val(),
                "--only-case" => a.only_case = Some(val().parse().unwrap()),
                "--scale-pct" => a.scale_pct = val().parse().unwrap(),
                "--cases-total" => a.cases_total = Some(val().parse().unwrap()),
                "--case-offset" => a.case_offset = val().parse().unwrap(),
                other if other.starts_with("--") => {
                    let v = val();
                    a.extra.insert(other[2..].to_string(), v);
                }
                other => panic!("unexpected argument {other}"),
            }
        }
        a
    }

    pub fn thorough(&self) -> bool {
        self.tier == "thorough"
    }

    /// Number of cases for this shard given per-tier totals.
    pub fn cases(&self, quick_total: u64, thorough_total: u64) -> u64 {
        let total = if self.thorough() { thorough_total } else { quick_total };
        let total = self.cases_total.unwrap_or((total * self.scale_pct / 100).max(1));
        total.div_ceil(self.shards).max(1)
    }

    /// Base RNG for this run (not shard specific).
    pub fn rng(&self) -> Rng {
        Rng::new(self.seed)
    }

    /// Global case index of this shard's `i`th case.
    pub fn case_id(&self, i: u64) -> u64 {
        self.case_offset + i * self.shards + self.shard
    }

    pub fn extra_u64(&self, k: &str, default: u64) -> u64 {
        self.extra.get(k).map(|v| v.parse().unwrap()).unwrap_or(default)
    }
}

#[derive(Clone, Debug)]
pub struct Violation {
    /// Stable signature used to match `/verif/known_findings.json`.
    pub signature: String,
    pub detail: String,
    pub replay: Value,
}

pub struct Shard {
    pub property: String,
    pub args: Args,
    pub evaluations: u64,
    pub distinct: HashSet<u64>,
    /// Second distinct-set (e.g. slot-state vectors seen).
    pub aux: HashSet<u64>,
    pub counters: BTreeMap<String, u64>,
    pub samples: Vec<Value>,
    pub violations: Vec<Violation>,
    pub observations: BTreeMap<String, Vec<String>>,
    pub inconclusive: Option<String>,
    pub max_samples: usize,
    sig_counts: BTreeMap<String, u64>,
}

/// Text of a panic payload.
pub fn panic_text(p: &Box<dyn std::any::Any + Send>) -> String {
    p.downcast_ref::<String>().cloned().or_else(|| p.downcast_ref::<&str>().map(|s| s.to_string())).unwrap_or_else(|| "?".into())
}

thread_local! {
    static LAST_PANIC_LOCATION: std::cell::RefCell<String> = const { std::cell::RefCell::new(String::new()) };
}

/// Install a panic hook that remembers where the last panic of this thread happened (and prints
/// nothing unless VH_PANICS is set).
pub fn quiet_panics() {
    std::panic::set_hook(Box::new(|i| {
        let loc = i.location().map(|l| format!("{}:{}", l.file(), l.line())).unwrap_or_default();
        LAST_PANIC_LOCATION.with(|c| *c.borrow_mut() = loc);
        if std::env::var("VH_PANICS").is_ok() {
            eprintln!("{i}");
        }
    }));
}

impl Shard {
    /// Run one case; a panic that escapes it - in ethercrab or in the harness - is recorded instead
    /// of killing the shard: a panic raised inside /repo's sources is a violation
    /// `<property>:panic:<file>:<message class>` (every property promises a value or an error, not an
    /// abort), one raised by the harness itself makes the run inconclusive.
    pub fn guard_case(&mut self, case: u64, f: impl FnOnce(&mut Shard)) {
        let r = std::panic::catch_unwind(std::panic::AssertUnwindSafe(|| f(self)));
        if let Err(p) = r {
            let msg = panic_text(&p);
            let loc = LAST_PANIC_LOCATION.with(|c| c.borrow().clone());
            let cls: String = msg.chars().filter(|c| !c.is_ascii_digit()).take(40).collect::<String>().trim().replace(' ', "-");
            // the harness crate's own files are reported with a relative path (src/...), /repo's with
            // an absolute one; panics raised in a dependency or in core on behalf of ethercrab code
            // (no #[track_caller]) also count as ethercrab's
            let harness = loc.starts_with("src/") || loc.contains("/verif/") || loc.is_empty();
            if !harness {
                let file = loc.split("/repo/").last().unwrap_or(&loc).split(':').next().unwrap_or("").to_string();
                let prop = self.property.clone();
                self.violation(&format!("{prop}:panic:{file}:{cls}"), format!("panic at {loc}: {msg}"), serde_json::json!({"case": case}));
            } else {
                self.inconclusive = Some(format!("harness panic in case {case} at {loc}: {msg}"));
            }
        }
    }

    pub fn new(property: &str, args: &Args) -> Self {
        Self {
            property: property.into(),
            args: args.clone(),
            evaluations: 0,
            distinct: HashSet::new(),
            aux: HashSet::new(),
            counters: BTreeMap::new(),
            samples: Vec::new(),
            violations: Vec::new(),
            observations: BTreeMap::new(),
            inconclusive: None,
            max_samples: 4,
            sig_counts: BTreeMap::new(),
        }
    }

    pub fn count(&mut self, key: &str) {
        self.add(key, 1);
    }

    pub fn add(&mut self, key: &str, n: u64) {
        *self.counters.entry(key.to_string()).or_insert(0) += n;
    }

    pub fn max(&mut self, key: &str, v: u64) {
        let e = self.counters.entry(format!("max.{key}")).or_insert(0);
        *e = (*e).max(v);
    }

    /// Record one evaluated case. `nontrivial_hash` is `Some(hash)` when the case is non-trivial
    /// by the property's stated rule.
    pub fn case(&mut self, nontrivial_hash: Option<u64>) {
        self.evaluations += 1;
        if let Some(h) = nontrivial_hash {
            self.distinct.insert(h);
        }
    }

    pub fn distinct_aux(&mut self, h: u64) {
        self.aux.insert(h);
    }

    pub fn sample(&mut self, v: Value) {
        if self.samples.len() < self.max_samples {
            self.samples.push(v);
        }
    }

    pub fn wants_sample(&self) -> bool {
        self.samples.len() < self.max_samples
    }

    /// Free-text observation that is *not* judged (recorded in evidence only, de-duplicated).
    pub fn observe(&mut self, key: &str, text: String) {
        let v = self.observations.entry(key.to_string()).or_default();
        if v.len() < 5 && !v.contains(&text) {
            v.push(text);
        }
        self.count(&format!("obs.{key}"));
    }

    pub fn violation(&mut self, signature: &str, detail: String, replay: Value) {
        let n = self.sig_counts.entry(signature.to_string()).or_insert(0);
        *n += 1;
        // Keep the first few witnesses per signature; count the rest.
        if *n <= 3 {
            self.violations.push(Violation {
                signature: signature.to_string(),
                detail,
                replay,
            });
        }
    }

    pub fn violation_count(&self) -> u64 {
        self.sig_counts.values().sum()
    }

    pub fn finish(self) {
        let mut distinct: Vec<u64> = self.distinct.iter().copied().collect();
        distinct.sort_unstable();
        let v = json!({
            "property": self.property,
            "seed": self.args.seed,
            "shard": self.args.shard,
            "shards": self.args.shards,
            "tier": self.args.tier,
            "evaluations": self.evaluations,
            "distinct": distinct,
            "aux_distinct": self.aux.iter().copied().collect::<Vec<u64>>(),
            "counters": self.counters,
            "samples": self.samples,
            "observations": self.observations,
            "violations": self.violations.iter().map(|v| json!({
                "signature": v.signature, "detail": v.detail, "replay": v.replay,
            })).collect::<Vec<_>>(),
            "violation_counts": self.sig_counts,
            "inconclusive": self.inconclusive,
        });
        let s = serde_json::to_string(&v).unwrap();
        if self.args.out.is_empty() {
            println!("{s}");
        } else {
            std::fs::write(&self.args.out, s).expect("write shard output");
        }
    }
}

pub fn hex(b: &[u8]) -> String {
    let mut s = String::with_capacity(b.len() * 2);
    for x in b {
        s.push_str(&format!("{x:02x}"));
    }
    s
}
