//! Monitors fed by the hook events of the PDU loop (serialised by the baton scheduler):
//! M-state (shadow lifecycle state per slot, transition relation), M-excl (buffer access windows
//! and ownership generations). M-route / M-view / M-cap / M-deadline are evaluated by the actors at
//! the API boundary and report through `violation`.

use crate::pl::*;
use crate::sched::{Event, Monitor};
use ethercrab::verif::Site;
use std::collections::{BTreeMap, HashSet, VecDeque};

#[derive(Clone, Copy, Debug, PartialEq, Eq, Hash, PartialOrd, Ord)]
pub enum Party {
    Builder,
    Tx,
    Rx,
    Reader,
}

#[derive(Clone, Copy, Debug, PartialEq, Eq)]
pub enum HolderKind {
    Created,
    Future,
    TxClaim,
    RxClaim,
    Received,
    View,
}

#[derive(Clone, Debug)]
pub struct Holder {
    pub actor: usize,
    pub kind: HolderKind,
    pub token: u64,
}

#[derive(Clone, Copy, Debug, PartialEq, Eq)]
pub enum Mode {
    /// C01/C02: the documented lifecycle relation is enforced.
    Lifecycle,
    /// C06: expiry/abandonment may hit any state; transitions are only counted.
    Deadlines,
}

pub struct PlMon {
    pub mode: Mode,
    pub addrs: Vec<usize>,
    pub shadow: Vec<u8>,
    pub generation: Vec<u64>,
    pub open: Vec<Vec<(usize, Party)>>,
    pub holders: Vec<Vec<Holder>>,
    pub violations: Vec<(String, String)>,
    pub transitions: BTreeMap<String, u64>,
    pub sites: BTreeMap<String, u64>,
    pub vectors: HashSet<u64>,
    pub windows: u64,
    pub overlapping_actors_seen: u64,
    pub trace: VecDeque<String>,
    pub trace_hash: u64,
    pub actor_names: Vec<String>,
    next_token: u64,
    /// Last actor that touched each slot (any event) — used to tell whether two actors really
    /// interleaved on one slot in this execution.
    last_actor: Vec<Option<usize>>,
    pub interleaved_on_slot: bool,
    /// Set by the TX actor while a send closure that is going to fail (error / partial) runs.
    pub tx_send_failing: bool,
}

impl PlMon {
    pub fn new(mode: Mode, addrs: Vec<usize>, actor_names: &[&str]) -> Self {
        let n = addrs.len();
        Self {
            mode,
            addrs,
            shadow: vec![ST_NONE; n],
            generation: vec![0; n],
            open: vec![vec![]; n],
            holders: vec![vec![]; n],
            violations: vec![],
            transitions: BTreeMap::new(),
            sites: BTreeMap::new(),
            vectors: HashSet::new(),
            windows: 0,
            overlapping_actors_seen: 0,
            trace: VecDeque::new(),
            trace_hash: 0xcbf29ce484222325,
            actor_names: actor_names.iter().map(|s| s.to_string()).collect(),
            next_token: 1,
            last_actor: vec![None; n],
            interleaved_on_slot: false,
            tx_send_failing: false,
        }
    }

    pub fn violation(&mut self, sig: &str, detail: String) {
        if self.violations.len() < 8 {
            let tr: Vec<String> = self.trace.iter().cloned().collect();
            self.violations.push((sig.to_string(), format!("{detail}\n  last events: {}", tr.join(" | "))));
        }
    }

    pub fn slot_of(&self, addr: usize) -> Option<usize> {
        self.addrs.iter().position(|a| *a == addr)
    }

    fn allowed(&self, from: u8, to: u8, store: bool) -> bool {
        if self.mode == Mode::Deadlines {
            return true;
        }
        if store {
            matches!((from, to), (ST_CREATED, ST_SENDABLE))
        } else {
            matches!(
                (from, to),
                (ST_NONE, ST_CREATED)
                    | (ST_SENDABLE, ST_SENDING)
                    | (ST_SENDING, ST_SENT)
                    // send failure: back to the queue
                    | (ST_SENDING, ST_SENDABLE)
                    | (ST_SENT, ST_RXBUSY)
                    | (ST_RXBUSY, ST_RXDONE)
                    | (ST_RXDONE, ST_RXPROC)
                    | (ST_RXPROC, ST_NONE)
                    | (ST_CREATED, ST_NONE)
                    // abandonment of a request nobody is inside of
                    | (ST_SENDABLE, ST_NONE)
                    | (ST_SENT, ST_NONE)
                    | (ST_RXDONE, ST_NONE)
            )
        }
    }

    pub fn add_holder(&mut self, slot: usize, actor: usize, kind: HolderKind) -> u64 {
        let token = self.next_token;
        self.next_token += 1;
        self.holders[slot].push(Holder { actor, kind, token });
        token
    }

    pub fn remove_holder(&mut self, slot: usize, token: u64) {
        self.holders[slot].retain(|h| h.token != token);
    }

    pub fn remove_holders_of(&mut self, actor: usize, kind: HolderKind) {
        for hs in self.holders.iter_mut() {
            hs.retain(|h| !(h.actor == actor && h.kind == kind));
        }
    }

    pub fn open_window(&mut self, slot: usize, actor: usize, party: Party) {
        self.windows += 1;
        let others: Vec<(usize, Party)> = self.open[slot].iter().copied().filter(|(a, _)| *a != actor).collect();
        if let Some((oa, op)) = others.first() {
            let mut ps = [format!("{op:?}"), format!("{party:?}")];
            ps.sort();
            self.violation(
                &format!("{}:overlapping-access:{}+{}", self.prefix(), ps[0], ps[1]),
                format!("slot {slot}: {} opens a {party:?} window while {} has a {op:?} window open", self.name(actor), self.name(*oa)),
            );
        }
        self.open[slot].push((actor, party));
    }

    pub fn close_window(&mut self, slot: usize, actor: usize, party: Party) {
        if let Some(p) = self.open[slot].iter().position(|(a, k)| *a == actor && *k == party) {
            self.open[slot].remove(p);
        }
    }

    fn prefix(&self) -> &'static str {
        if self.mode == Mode::Deadlines { "C06" } else { "C02" }
    }

    fn name(&self, a: usize) -> String {
        self.actor_names.get(a).cloned().unwrap_or_else(|| format!("actor{a}"))
    }

    pub fn state_vector_hash(&self) -> u64 {
        crate::prng::fnv(&self.shadow)
    }
}

impl Monitor for PlMon {
    fn on_event(&mut self, ev: &Event) {
        *self.sites.entry(format!("{:?}", ev.site)).or_insert(0) += 1;
        let slot = if ev.addr != 0 { self.slot_of(ev.addr) } else { None };
        let line = format!("{}:{:?}{}({},{})", self.name(ev.actor), ev.site, slot.map_or(String::new(), |s| format!("#{s}")), ev.a, ev.b);
        if self.trace.len() >= 40 {
            self.trace.pop_front();
        }
        self.trace_hash = crate::prng::fnv_mix(self.trace_hash, crate::prng::fnv(line.as_bytes()));
        if trace_on() {
            eprintln!("[{}] {}", ev.step, line);
        }
        self.trace.push_back(line);

        let Some(slot) = slot else { return };
        if let Some(prev) = self.last_actor[slot] {
            if prev != ev.actor {
                self.interleaved_on_slot = true;
            }
        }
        self.last_actor[slot] = Some(ev.actor);

        match ev.site {
            Site::StateSwap => {
                let (from, to) = (ev.a, ev.b);
                *self.transitions.entry(format!("swap:{}->{}", state_name(from), state_name(to))).or_insert(0) += 1;
                if self.shadow[slot] != from {
                    self.violation("HARNESS:shadow-mismatch", format!("slot {slot}: swap from {} but shadow says {}", state_name(from), state_name(self.shadow[slot])));
                }
                // RX withdrawing a claim it just made, without having entered the buffer, is the
                // one documented back-edge besides the send-failure one.
                let rx_backoff = (from, to) == (ST_RXBUSY, ST_SENT)
                    && self.holders[slot].iter().any(|h| h.actor == ev.actor && h.kind == HolderKind::RxClaim)
                    && !self.open[slot].iter().any(|(a, p)| *a == ev.actor && *p == Party::Rx);
                if rx_backoff {
                    self.holders[slot].retain(|h| !(h.actor == ev.actor && h.kind == HolderKind::RxClaim));
                }
                if !rx_backoff && !self.allowed(from, to, false) {
                    self.violation(&format!("C02:illegal-transition:swap:{}->{}", state_name(from), state_name(to)), format!("slot {slot} by {}", self.name(ev.actor)));
                }
                self.shadow[slot] = to;
                match (from, to) {
                    (ST_NONE, ST_CREATED) => {
                        self.generation[slot] += 1;
                        if let Some(h) = self.holders[slot].first().cloned() {
                            let sig = if h.kind == HolderKind::View { format!("{}:view-outlives-slot", if self.mode == Mode::Deadlines { "C06" } else { "C01" }) } else { format!("{}:realloc-while-held", self.prefix()) };
                            self.violation(
                                &format!("{sig}:{:?}", h.kind),
                                format!("slot {slot} handed to {} while {} still holds a {:?} of the previous request", self.name(ev.actor), self.name(h.actor), h.kind),
                            );
                            // the previous generation is gone for good
                            self.holders[slot].clear();
                        }
                    }
                    (ST_SENDABLE, ST_SENDING) => {
                        self.add_holder(slot, ev.actor, HolderKind::TxClaim);
                    }
                    (ST_SENT, ST_RXBUSY) => {
                        self.add_holder(slot, ev.actor, HolderKind::RxClaim);
                    }
                    (ST_RXBUSY, ST_RXDONE) => {
                        self.holders[slot].retain(|h| !(h.actor == ev.actor && h.kind == HolderKind::RxClaim));
                    }
                    (ST_SENDING, ST_SENT) | (ST_SENDING, ST_SENDABLE) => {
                        self.holders[slot].retain(|h| !(h.actor == ev.actor && h.kind == HolderKind::TxClaim));
                    }
                    (ST_ABANDONED, ST_NONE) => {
                        if self.tx_send_failing && self.holders[slot].iter().any(|h| h.actor == ev.actor && h.kind == HolderKind::TxClaim) {
                            // a request given up while TX was inside, and that very transmission failed
                            *self.transitions.entry("abandoned-freed-after-failed-send".into()).or_insert(0) += 1;
                        }
                        self.holders[slot].retain(|h| !(h.actor == ev.actor && matches!(h.kind, HolderKind::TxClaim | HolderKind::RxClaim)));
                    }
                    _ => {}
                }
                self.vectors.insert(self.state_vector_hash());
            }
            Site::StateStore => {
                let (from, to) = (self.shadow[slot], ev.a);
                *self.transitions.entry(format!("store:{}->{}", state_name(from), state_name(to))).or_insert(0) += 1;
                if !self.allowed(from, to, true) {
                    self.violation(&format!("C02:illegal-transition:store:{}->{}", state_name(from), state_name(to)), format!("slot {slot} by {}", self.name(ev.actor)));
                }
                self.shadow[slot] = to;
                if matches!(to, ST_SENT | ST_SENDABLE) {
                    self.holders[slot].retain(|h| !(h.actor == ev.actor && h.kind == HolderKind::TxClaim));
                }
                self.vectors.insert(self.state_vector_hash());
            }
            // The future gives its slot up inside poll (last retry expired) or in its Drop.
            Site::PollTimerFired if ev.a == 0 => {
                self.holders[slot].retain(|h| !(h.actor == ev.actor && h.kind == HolderKind::Future));
            }
            Site::FutDrop => {
                self.holders[slot].retain(|h| !(h.actor == ev.actor && h.kind == HolderKind::Future));
            }
            Site::InitBegin | Site::PushBegin => self.open_window(slot, ev.actor, Party::Builder),
            Site::InitEnd | Site::PushEnd => self.close_window(slot, ev.actor, Party::Builder),
            Site::TxBytesBegin => self.open_window(slot, ev.actor, Party::Tx),
            Site::TxBytesEnd => self.close_window(slot, ev.actor, Party::Tx),
            Site::RxCopyBegin => self.open_window(slot, ev.actor, Party::Rx),
            Site::RxCopyEnd => self.close_window(slot, ev.actor, Party::Rx),
            _ => {}
        }
    }
}

pub fn trace_on() -> bool {
    static ON: std::sync::OnceLock<bool> = std::sync::OnceLock::new();
    *ON.get_or_init(|| std::env::var("VH_TRACE").is_ok())
}
