//! C03 — frame slots are always returned: capacity is never lost.
//!
//! Monitor M-cap. Random operation histories (depth <= 40) over 1/2/4 slots; after every
//! operation the number of slots that are not free (read through the inspector) must equal the
//! number of live handles that own a slot (tracked by the harness at the API boundary), an
//! allocation may fail only when every slot is owned, and after the history a drain-and-reallocate
//! probe through a `MainDevice` must allocate exactly N frames, also after `PduLoop::reset`.

use ethercrab::error::{Error, PduError};
use ethercrab::verif as ev;
use ethercrab::{Command, MainDevice, MainDeviceConfig, PduStorage, ReceiveAction, Timeouts};
use serde_json::json;
use std::future::Future;
use std::pin::Pin;
use std::task::Poll;
use std::time::Duration;
use vh::pl::*;
use vh::prng::{Rng, fnv_mix};
use vh::shard::{Args, Shard};
use vh::vclock;
use vh::wire::{self, Dgram};

const DATA: usize = 96;

fn main() {
    let args = Args::parse();
    let mut sh = Shard::new("C03", &args);
    vh::shard::quiet_panics();
    let n = args.cases(6_000, 600_000);
    for i in 0..n {
        let case = args.case_id(i);
        if let Some(only) = args.only_case {
            if only != case {
                continue;
            }
        }
        let mut rng = args.rng().fork(case);
        sh.guard_case(case, |sh| match case % 3 {
            0 => run_case::<1>(&mut rng, sh, case),
            1 => run_case::<2>(&mut rng, sh, case),
            _ => run_case::<4>(&mut rng, sh, case),
        });
    }
    sh.finish();
}

struct FutHandleOnly {
    handle: Option<ev::PduResponseHandle>,
}

struct FutH<'a> {
    fut: Pin<Box<ev::ReceiveFrameFut<'a>>>,
    handle: Option<ev::PduResponseHandle>,
}

fn run_case<const N: usize>(rng: &mut Rng, sh: &mut Shard, case: u64) {
    vclock::reset(1_000);
    let storage = PduStorage::<N, DATA>::new();
    let (mut tx, mut rx, pdu_loop) = storage.try_split().expect("split");
    let md = MainDevice::new(pdu_loop, Timeouts { pdu: Duration::from_micros(500), ..Timeouts::default() }, MainDeviceConfig::default());
    let pl = ev::maindevice_pdu_loop(&md);
    let cap = DATA - 28;
    let (_wc, waker) = count_waker();

    let mut created: Vec<ev::CreatedFrame> = vec![];
    let mut futs: Vec<FutH> = vec![];
    let mut received: Vec<ev::ReceivedFrame> = vec![];
    // futures that have already resolved (value or error) but are kept alive by the caller for a
    // while, as an enclosing select/join would: they own nothing any more, and dropping them late
    // - after their former slot went to a new request - must not touch that slot
    let mut spent: Vec<FutH> = vec![];
    // Responses "on the wire": bytes of every transmission not yet answered.
    let mut wire_q: Vec<Vec<u8>> = vec![];
    let mut last_resp: Option<Vec<u8>> = None;

    let depth = 5 + rng.usize_below(36);
    let mut hist: Vec<String> = vec![];
    let mut hh = fnv_mix(0, N as u64);
    let mut errpath = false;
    let mut ok = true;

    macro_rules! check {
        ($what:expr) => {{
            let busy = states(pl).iter().filter(|s| **s != ST_NONE).count();
            let owners = created.len() + futs.len() + received.len();
            if busy != owners {
                let sig = if busy > owners { "C03:slot-leaked" } else { "C03:owned-slot-is-free" };
                sh.violation(
                    &format!("{sig}:after-{}", $what),
                    format!("{busy} slots not free but {owners} live owners; states {:?}; history {:?}", states(pl).iter().map(|s| state_name(*s)).collect::<Vec<_>>(), hist),
                    json!({"case": case, "history": hist}),
                );
                ok = false;
            }
        }};
    }

    for _step in 0..depth {
        if !ok {
            break;
        }
        // Weighted choice among operations that can do something in the current situation.
        let have_f = !futs.is_empty();
        let w: [u64; 9] = [
            if created.len() + futs.len() + received.len() < N { 18 } else { 4 }, // alloc
            if created.is_empty() { 0 } else { 4 },                               // drop created
            if created.is_empty() { 0 } else { 18 },                              // mark sendable
            if have_f { 22 } else { 0 },                                          // poll
            if have_f { 18 } else { 1 },                                          // tx
            if have_f || !wire_q.is_empty() { 18 } else { 2 },                    // rx
            if have_f { 8 } else { 1 },                                           // time
            if have_f || !spent.is_empty() { 4 } else { 0 },                      // drop future (pending or resolved)
            if received.is_empty() { 0 } else { 6 },                              // drop received
        ];
        let bounds = [22u64, 30, 45, 60, 72, 86, 92, 96, 100];
        let mut pickv = rng.below(w.iter().sum());
        let mut opi = 0;
        for (i, x) in w.iter().enumerate() {
            if pickv < *x {
                opi = i;
                break;
            }
            pickv -= *x;
        }
        let op = bounds[opi] - 1;
        let name: &str;
        if op < 22 {
            // allocate (+ pushes, maybe a failing one)
            let owners = created.len() + futs.len() + received.len();
            match ev::alloc_frame(pl) {
                Ok(mut f) => {
                    name = "alloc";
                    let k = rng.usize_below(3);
                    for _ in 0..k {
                        let l = rng.usize_below(cap / 2);
                        let _ = f.push_pdu(make_command(rng.usize_below(NUM_CMD_KINDS), rng.u16(), rng.u16()), &rng.bytes(l)[..], None);
                    }
                    if rng.chance(1, 6) {
                        // validation failure: a push that cannot fit
                        let big = cap + 1 + rng.usize_below(20);
                        let r = f.push_pdu(Command::brd(0).into(), &rng.bytes(big)[..], None);
                        assert!(matches!(r, Err(PduError::TooLong)));
                        errpath = true;
                        hist.push("push-too-long".into());
                    }
                    created.push(f);
                }
                Err(e) => {
                    name = "alloc-fail";
                    if owners < N {
                        sh.violation("C03:alloc-failed-with-free-capacity", format!("alloc failed ({e:?}) with {owners}/{N} owners; states {:?}; history {hist:?}", states(pl)), json!({"case": case, "history": hist}));
                        ok = false;
                    }
                    sh.count("alloc_refused_when_full");
                }
            }
        } else if op < 30 {
            name = "drop-created";
            if !created.is_empty() {
                let i = rng.usize_below(created.len());
                drop(created.swap_remove(i));
                errpath = true;
            }
        } else if op < 45 {
            name = "mark-sendable";
            if !created.is_empty() {
                let i = rng.usize_below(created.len());
                let mut f = created.swap_remove(i);
                let handle = if f.is_empty() { f.push_pdu(Command::brd(0).into(), (), Some(1)).ok() } else { None };
                let retries = *rng.pick(&[0usize, 0, 1, 2, 3, usize::MAX]);
                let to = *rng.pick(&[100u64, 300, 1000, 3_600_000_000]);
                let fut = ev::mark_sendable(f, pl, Duration::from_micros(to), retries);
                futs.push(FutH { fut: Box::pin(fut), handle });
            }
        } else if op < 60 {
            name = "poll";
            if !futs.is_empty() {
                let i = rng.usize_below(futs.len());
                match poll_once(&mut futs[i].fut, &waker) {
                    Poll::Pending => {}
                    Poll::Ready(Ok(rf)) => {
                        let fh = futs.swap_remove(i);
                        sh.count("completed");
                        hist.push("ready-ok".into());
                        let mut fh = fh;
                        let handle = fh.handle.take();
                        if rng.bool() {
                            spent.push(fh);
                            hist.push("keep-resolved-future".into());
                        }
                        let fh = FutHandleOnly { handle };
                        // Either read through first_pdu (consumes the frame) or hold the frame.
                        if let (Some(h), true) = (fh.handle, rng.bool()) {
                            let _ = rf.first_pdu(h);
                        } else {
                            received.push(rf);
                        }
                    }
                    Poll::Ready(Err(e)) => {
                        let fh = futs.swap_remove(i);
                        if rng.bool() {
                            spent.push(fh);
                            hist.push("keep-resolved-future".into());
                        }
                        errpath = true;
                        match e {
                            Error::Timeout(_) => {
                                sh.count("timed_out");
                                hist.push("ready-timeout".into());
                            }
                            other => {
                                sh.count("future_other_error");
                                hist.push(format!("ready-err-{other:?}"));
                            }
                        }
                    }
                }
            }
        } else if op < 72 {
            // transmit everything sendable: ok / error / partial
            let mode = rng.below(5);
            name = match mode {
                0 => "tx-error",
                1 => "tx-partial",
                _ => "tx-ok",
            };
            let mut guard = 0;
            while let Some(f) = tx.next_sendable_frame() {
                guard += 1;
                let mut b = vec![];
                let r = f.send_blocking(|bytes| {
                    b = bytes.to_vec();
                    match mode {
                        0 => Err(Error::SendFrame),
                        1 => Ok(bytes.len() - 1),
                        _ => Ok(bytes.len()),
                    }
                });
                if r.is_ok() {
                    wire_q.push(b);
                    sh.count("transmissions");
                } else {
                    errpath = true;
                    sh.count("send_failures");
                    // a failed send leaves the frame sendable: stop or we would spin forever
                    break;
                }
                if guard > 2 * N {
                    break;
                }
            }
        } else if op < 86 {
            // the network answers (or not)
            let mode = rng.below(10);
            name = match mode {
                0 => "rx-lost",
                1 => "rx-duplicate",
                2 => "rx-garbage",
                3 => "rx-oversize",
                _ => "rx-genuine",
            };
            match mode {
                0 => {
                    if !wire_q.is_empty() {
                        let i = rng.usize_below(wire_q.len());
                        wire_q.swap_remove(i);
                        errpath = true;
                    }
                }
                1 => {
                    if let Some(r) = &last_resp {
                        let _ = rx.receive_frame(r);
                        errpath = true;
                    }
                }
                2 => {
                    let n = rng.usize_below(DATA + 20);
                    let mut g = rng.bytes(n);
                    if n > 18 && rng.bool() {
                        g[..12].copy_from_slice(&[0xff, 0xff, 0xff, 0xff, 0xff, 0xff, 0x12, 0x10, 0x10, 0x10, 0x10, 0x10]);
                        g[12] = 0x88;
                        g[13] = 0xa4;
                    }
                    let _ = rx.receive_frame(&g);
                    errpath = true;
                }
                3 => {
                    if !wire_q.is_empty() {
                        let i = rng.usize_below(wire_q.len());
                        let idx = wire_q[i][17];
                        let d = Dgram { cmd: 7, idx, addr: 0, len: 0, reserved: 0, circulating: false, more: false, irq: 0, data: rng.bytes(DATA), wkc: 1 };
                        let mut f = wire::main_frame(vec![d]);
                        f.src = wire::MAC_RETURNED;
                        let r = rx.receive_frame(&wire::encode_frame(&f));
                        assert_ne!(r, Ok(ReceiveAction::Processed));
                        errpath = true;
                    }
                }
                _ => {
                    if !wire_q.is_empty() {
                        let i = rng.usize_below(wire_q.len());
                        let b = wire_q.swap_remove(i);
                        let resp = respond(&b, |_, d| d.wkc = 1);
                        let _ = rx.receive_frame(&resp);
                        last_resp = Some(resp);
                    }
                }
            }
        } else if op < 92 {
            name = "advance-time";
            vclock::advance_by(*rng.pick(&[50u64, 100, 250, 1000, 5000]));
        } else if op < 96 {
            if !spent.is_empty() && (futs.is_empty() || rng.bool()) {
                name = "drop-resolved-future";
                let i = rng.usize_below(spent.len());
                drop(spent.swap_remove(i));
            } else if !futs.is_empty() {
                name = "drop-future";
                let i = rng.usize_below(futs.len());
                let st = states(pl);
                sh.count(&format!("future_dropped_in.{}", st.iter().map(|s| state_name(*s)).collect::<Vec<_>>().join(",")).chars().take(60).collect::<String>());
                drop(futs.swap_remove(i));
                errpath = true;
            } else {
                name = "drop-future";
            }
        } else {
            name = "drop-received";
            if !received.is_empty() {
                let i = rng.usize_below(received.len());
                drop(received.swap_remove(i));
            }
        }
        hist.push(name.to_string());
        hh = fnv_mix(hh, vh::prng::fnv(name.as_bytes()));
        sh.count(&format!("op.{name}"));
        check!(name);
    }

    if ok {
        // Drain, then the probe through the public MainDevice API.
        // resolved futures first: everything else is still owned while they go
        drop(spent);
        check!("drop-all-resolved-futures");
        drop(created);
        drop(futs);
        drop(received);
        let busy = states(pl).iter().filter(|s| **s != ST_NONE).count();
        if busy != 0 {
            sh.violation("C03:slot-leaked:after-drain", format!("{busy} slots not free after every handle was dropped; states {:?}; history {hist:?}", states(pl).iter().map(|s| state_name(*s)).collect::<Vec<_>>()), json!({"case": case, "history": hist}));
        } else {
            let rounds = if rng.bool() { 2 } else { 1 };
            for round in 0..rounds {
                let mut probes: Vec<Pin<Box<dyn Future<Output = Result<u8, Error>> + '_>>> = vec![];
                let mut got = 0;
                let mut extra_ok = false;
                for k in 0..N + 1 {
                    let mut f: Pin<Box<dyn Future<Output = Result<u8, Error>> + '_>> = Box::pin(Command::brd(0x0000).receive::<u8>(&md));
                    match poll_once(&mut f, &waker) {
                        Poll::Pending => {
                            if k < N {
                                got += 1;
                            } else {
                                extra_ok = true;
                            }
                            probes.push(f);
                        }
                        Poll::Ready(Err(Error::Pdu(PduError::SwapState))) => {}
                        Poll::Ready(other) => {
                            sh.observe("probe_other", format!("{other:?}"));
                        }
                    }
                }
                if got != N || extra_ok {
                    sh.violation(
                        if got != N { "C03:capacity-lost" } else { "C03:capacity-exceeded" },
                        format!("probe round {round}: {got}/{N} allocations succeeded, N+1st ok={extra_ok}; history {hist:?}"),
                        json!({"case": case, "history": hist}),
                    );
                }
                drop(probes);
                sh.count("probes");
                if round == 0 && rounds == 2 {
                    // PduLoop::reset needs exclusive access: only reachable by releasing the
                    // MainDevice; emulate with a second storage-level check instead: every slot
                    // must already be free again here.
                    let busy = states(pl).iter().filter(|s| **s != ST_NONE).count();
                    if busy != 0 {
                        sh.violation("C03:slot-leaked:after-probe", format!("{busy} slots busy after dropping the probe requests"), json!({"case": case, "history": hist}));
                    }
                }
            }
        }
        // PduLoop::reset (through MainDevice::release) must free everything, even slots whose
        // handles were leaked.
        if rng.chance(1, 3) {
            let leak = rng.usize_below(N + 1);
            for _ in 0..leak {
                if let Ok(mut f) = ev::alloc_frame(pl) {
                    let _ = f.push_pdu(Command::brd(0).into(), (), Some(2));
                    if rng.bool() {
                        std::mem::forget(ev::mark_sendable(f, pl, Duration::from_secs(1), 0));
                    } else {
                        std::mem::forget(f);
                    }
                }
            }
            let pl2 = unsafe { md.release() };
            let busy = states(&pl2).iter().filter(|s| **s != ST_NONE).count();
            let mut held = vec![];
            for _ in 0..N {
                if let Ok(f) = ev::alloc_frame(&pl2) {
                    held.push(f);
                }
            }
            let extra = ev::alloc_frame(&pl2).is_ok();
            if busy != 0 || held.len() != N || extra {
                sh.violation("C03:reset-does-not-restore-capacity", format!("after reset with {leak} leaked: {busy} busy, {}/{N} allocatable, N+1st ok={extra}", held.len()), json!({"case": case, "history": hist}));
            }
            sh.count("resets");
        }
    } else {
        std::mem::forget(created);
        std::mem::forget(spent);
        std::mem::forget(futs);
        std::mem::forget(received);
    }
    sh.case(if errpath { Some(hh) } else { None });
    if sh.wants_sample() && errpath && hist.len() > 12 {
        sh.sample(json!({"slots": N, "history": hist}));
    }
}
