//! C11 — a device that did not answer is never mistaken for one that did.
//!
//! Part A: every single-datagram public entry point (receive, receive_slice, send_receive,
//! send_receive_slice over all command kinds) against present/absent addresses, wires that
//! add/subtract from the working counter, expected counts 0..3. The oracle takes the working
//! counter the simulated wire actually returned (ground truth from the wire log).
//! Part B: compound operations (register_read/write, status, EEPROM read, SDO read/write, group
//! transitions) with the device unplugged at every step index of the operation: the result must
//! be an error, never data / success.

use ethercrab::error::Error;
use ethercrab::{Command, MainDevice, Reads, SubDeviceGroup};
use serde_json::json;
use vh::prng::{Rng, fnv_mix};
use vh::shard::{Args, Shard};
use vh::sim::desc::*;
use vh::sim::{Net, Sim, Stop};
use vh::simrun::*;
use vh::wire;

fn main() {
    let args = Args::parse();
    let mut sh = Shard::new("C11", &args);
    std::panic::set_hook(Box::new(|_| {}));
    let n = args.cases(2_400, 240_000);
    for i in 0..n {
        let case = args.case_id(i);
        if let Some(only) = args.only_case {
            if only != case {
                continue;
            }
        }
        let mut rng = args.rng().fork(case ^ 0xC11);
        match rng.below(6) {
            0..=2 => part_a(&mut sh, case, &mut rng),
            3 => part_b(&mut sh, case, &mut rng),
            _ => part_c(&mut sh, case, &mut rng),
        }
    }
    sh.finish();
}

fn dev(rng: &mut Rng, coe: bool) -> DeviceDesc {
    let mut d = DeviceDesc::simple("WKC");
    d.sii_read8 = rng.bool();
    if coe {
        d.mailbox = Some((0x1000, 128, 0x1080, 128));
        d.mailbox_protocols = MBX_COE;
        d.sms = vec![SmDesc { start: 0x1000, len: 128, control: 0x26, enable: 1, usage: 1 }, SmDesc { start: 0x1080, len: 128, control: 0x22, enable: 1, usage: 2 }, SmDesc { start: 0x1100, len: 2, control: 0x64, enable: 1, usage: 3 }, SmDesc { start: 0x1180, len: 2, control: 0x20, enable: 1, usage: 4 }];
        d.fmmus = vec![1, 2];
        d.pdos = vec![PdoDesc { index: 0x1600, sm: 2, tx: false, entries: vec![PdoEntryDesc { index: 0x7000, sub: 1, bits: 16 }] }, PdoDesc { index: 0x1a00, sm: 3, tx: true, entries: vec![PdoEntryDesc { index: 0x6000, sub: 1, bits: 16 }] }];
    }
    d
}

/// Part A: single datagram entry points on raw (un-initialised) devices with known station
/// addresses.
fn part_a(sh: &mut Shard, case: u64, rng: &mut Rng) {
    let n = 1 + rng.usize_below(4);
    let mut descs: Vec<DeviceDesc> = (0..n).map(|_| dev(rng, false)).collect();
    for (i, d) in descs.iter_mut().enumerate() {
        d.stale_address = 0x2000 + i as u16;
    }
    let mut net = Net::chain(descs);
    // one FMMU on device 0 so logical commands have something to hit
    {
        let m = &mut net.devs[0].mem;
        m[0x600..0x604].copy_from_slice(&0x0001_0000u32.to_le_bytes());
        m[0x604..0x606].copy_from_slice(&8u16.to_le_bytes());
        m[0x607] = 7;
        m[0x608..0x60a].copy_from_slice(&0x1800u16.to_le_bytes());
        m[0x60b] = 0x03;
        m[0x60c] = 1;
    }
    net.keep_log = true;
    let delta = *rng.pick(&[0i32, 0, 0, 1, -1, 2]);
    net.faults.wkc_delta = delta;
    let kind = rng.below(10);
    let present = rng.chance(2, 3);
    let station = if present { 0x2000 + rng.below(n as u64) as u16 } else { 0x3000 + rng.u16() % 0x100 };
    let pos = if present { rng.below(n as u64) as u16 } else { n as u16 + rng.below(3) as u16 };
    let expect: Option<Option<u16>> = match rng.below(6) {
        0 => None,                                  // default (1)
        1 => Some(None),                            // ignore_wkc: opted out, not judged
        _ => Some(Some(rng.below(4) as u16)),       // with_wkc(0..3)
    };
    let seed = rng.u64();
    let reg = *rng.pick(&[0x0010u16, 0x0130, 0x0012, 0x0f00]);
    let scenario = json!({"case": case, "part": "A", "kind": kind, "devices": n, "present": present, "station": station, "position": pos, "expect": format!("{expect:?}"), "wkc_delta": delta, "register": reg});
    let r = with_sim(net, seed, &MdCfg::default(), |md: &MainDevice, sim: &mut Sim| {
        macro_rules! rd {
            ($c:expr) => {{
                let c = $c;
                let c = match expect {
                    None => c,
                    Some(None) => c.ignore_wkc(),
                    Some(Some(w)) => c.with_wkc(w),
                };
                if kind % 2 == 0 { sim.run(c.receive::<u16>(md)).map(|r| r.map(|v| v.to_le_bytes().to_vec())) } else { sim.run(c.receive_slice(md, 2)).map(|r| r.map(|v| v.to_vec())) }
            }};
        }
        macro_rules! wr {
            ($c:expr) => {{
                let c = $c;
                let c = match expect {
                    None => c,
                    Some(None) => c.ignore_wkc(),
                    Some(Some(w)) => c.with_wkc(w),
                };
                if kind % 2 == 0 { sim.run(c.send_receive::<u16>(md, 0x1234u16)).map(|r| r.map(|v| v.to_le_bytes().to_vec())) } else { sim.run(c.send_receive_slice(md, 0x1234u16)).map(|r| r.map(|v| v.to_vec())) }
            }};
        }
        let out = match kind {
            0 | 1 => rd!(Command::fprd(station, reg)),
            2 => rd!(Command::brd(reg)),
            3 => rd!(Command::aprd(pos, reg)),
            4 => rd!(Reads::Lrd { address: if present { 0x0001_0000 } else { 0x0900_0000 } }.wrap()),
            5 | 6 => wr!(Command::fpwr(station, 0x0f00)),
            7 => wr!(Command::bwr(0x0f00)),
            8 => wr!(Command::apwr(pos, 0x0f00)),
            _ => wr!(Command::lrw(if present { 0x0001_0000 } else { 0x0900_0000 })),
        };
        let wire_wkc = sim.net.log.last().and_then(|l| l.rx.as_ref()).map(|f| f.dgrams[0].wkc);
        let cmd = sim.net.log.last().map(|l| l.tx.dgrams[0].cmd);
        (out, wire_wkc, cmd)
    });
    let (out, wire_wkc, cmd) = r;
    let Some(wire_wkc) = wire_wkc else {
        sh.violation("C11:no-frame-on-wire", format!("{out:?}"), scenario);
        return;
    };
    sh.case(Some(fnv_mix(fnv_mix(fnv_mix(case, kind), wire_wkc as u64), expect.map_or(9, |e| e.map_or(8, |w| w as u64)))));
    sh.count(&format!("A.cmd.{}", cmd.unwrap_or(0)));
    if sh.wants_sample() {
        sh.sample(json!({"scenario": scenario, "wire_wkc": wire_wkc, "result": format!("{out:?}").chars().take(120).collect::<String>()}));
    }
    sh.count(&format!("A.wire_wkc.{wire_wkc}"));
    let expected = match expect {
        None => Some(1u16),
        Some(None) => None,
        Some(Some(w)) => Some(w),
    };
    match (expected, out) {
        (_, Err(stop)) => {
            if stop == Stop::Stuck {
                sh.violation("C11:call-hangs", "single datagram call never returned".into(), scenario);
            }
        }
        (None, _) => sh.count("A.opted_out"),
        (Some(e), Ok(res)) => {
            let matches = e == wire_wkc;
            sh.count(if matches { "A.counter_matches" } else { "A.counter_differs" });
            match (matches, res) {
                (true, Ok(_)) => {}
                (true, Err(err)) => sh.violation(&format!("C11:spurious-error:{}", variant(&err)), format!("wire counter {wire_wkc} == expected {e} but the call failed: {err:?}"), scenario),
                (false, Ok(data)) => sh.violation(&format!("C11:data-returned-despite-wrong-counter:cmd{}", cmd.unwrap_or(0)), format!("expected {e}, wire returned {wire_wkc}, call returned Ok({data:02x?})"), scenario),
                (false, Err(Error::WorkingCounter { expected, received })) => {
                    if expected != e || received != wire_wkc {
                        sh.violation("C11:wrong-counts-in-error", format!("error says expected {expected} received {received}; truth expected {e} received {wire_wkc}"), scenario);
                    }
                }
                (false, Err(other)) => sh.violation(&format!("C11:wrong-error-kind:{}", variant(&other)), format!("expected WorkingCounter{{{e},{wire_wkc}}}, got {other:?}"), scenario),
            }
        }
    }
    let _ = wire::CMD_NOP;
}

/// Part B: compound operations with the device unplugged at step `f` of the operation.
fn part_b(sh: &mut Shard, case: u64, rng: &mut Rng) {
    let n = 1 + rng.usize_below(3);
    let descs: Vec<DeviceDesc> = (0..n).map(|_| dev(rng, true)).collect();
    let mut net = Net::chain(descs);
    for d in net.devs.iter_mut() {
        d.mailbox.od.insert((0x2000, 1), vec![1, 2, 3, 4]);
        d.mailbox.od.insert((0x2001, 0), (0..20).collect());
        d.desc.coe_pdo = false;
    }
    let victim = rng.usize_below(n);
    let op = rng.below(9);
    let f = rng.below(12);
    let seed = rng.u64();
    let opname = ["register_read", "register_write", "status", "eeprom_read_raw", "eeprom_read", "sdo_read", "sdo_write", "into_safe_op", "into_op"][op as usize];
    let scenario = json!({"case": case, "part": "B", "op": opname, "devices": n, "victim": victim, "unplug_at_step": f});
    let res = std::panic::catch_unwind(std::panic::AssertUnwindSafe(|| {
        with_sim(net, seed, &MdCfg::default(), |md: &MainDevice, sim: &mut Sim| {
            let g: SubDeviceGroup<4, 64> = match sim.run(md.init_single_group::<4, 64>(|| 0)) {
                Ok(Ok(g)) => g,
                other => return Err(format!("init: {:?}", other.map(|r| r.map(|_| ())))),
            };
            if op >= 7 {
                // group transitions consume the group: no clean run; the device disappears at a
                // step of the transition itself
                let step = f * 5;
                sim.net.faults.unplug = Some((victim, sim.net.frame_no + 1 + step));
                let flat = |r: Result<Result<String, Error>, Stop>| match r {
                    Ok(Ok(s)) => Ok(s),
                    Ok(Err(e)) => Err(format!("{e:?}")),
                    Err(s) => Err(format!("{s:?}")),
                };
                let before = sim.net.frame_no;
                let faulted = if op == 7 { flat(sim.run(g.into_safe_op(md)).map(|r| r.map(|_| "SAFE-OP".to_string()))) } else { flat(sim.run(g.into_op(md)).map(|r| r.map(|_| "OP".to_string()))) };
                let len = sim.net.frame_no - before;
                // only judged if the device really vanished before the call finished
                if !sim.net.devs[victim].present {
                    return Ok((Ok(String::new()), len, step, faulted));
                }
                return Ok((Ok(String::new()), len, step, Err("device still plugged when the call returned (not judged)".into())));
            }
            // fault-free run of the same operation first to learn its length in frames
            let before = sim.net.frame_no;
            let clean = run_op(sim, md, &g, victim, op);
            let len = sim.net.frame_no - before;
            let step = f % len.max(1);
            sim.net.faults.unplug = Some((victim, sim.net.frame_no + 1 + step));
            let faulted = run_op(sim, md, &g, victim, op);
            Ok((clean, len, step, faulted))
        })
    }));
    sh.count(&format!("B.op.{opname}"));
    match res {
        Err(p) => {
            let msg = p.downcast_ref::<String>().cloned().or_else(|| p.downcast_ref::<&str>().map(|s| s.to_string())).unwrap_or_default();
            sh.violation(&format!("C11:panic:{opname}"), msg, scenario);
        }
        Ok(Err(e)) => sh.violation("C11:init-failed", e, scenario),
        Ok(Ok((clean, len, step, faulted))) => {
            sh.case(Some(fnv_mix(fnv_mix(fnv_mix(case, op), step), victim as u64)));
            sh.max("op_length_frames", len);
            if let Err(e) = &clean {
                sh.violation(&format!("C11:clean-run-failed:{opname}"), e.clone(), scenario.clone());
                return;
            }
            match faulted {
                Ok(what) => sh.violation(&format!("C11:success-despite-unplugged-device:{opname}"), format!("device {victim} unplugged at step {step} of {len}; the call returned {what}"), scenario),
                Err(e) => {
                    sh.count("B.rejected");
                    sh.count(&format!("B.error.{}", e.split(|c: char| c == ' ' || c == '{' || c == '(').next().unwrap_or("")));
                }
            }
        }
    }
}

/// Part C: the addressed device misses exactly ONE frame of a compound operation (a transient
/// dropout; it services everything before and after). When the missed frame carried a datagram
/// that hands data of that device back (a read), the operation must fail; it must never return
/// anything but the true value. EEPROM devices are busy for 0..3 polls, and a different address /
/// object is read first so that stale register or mailbox content differs from the truth.
fn part_c(sh: &mut Shard, case: u64, rng: &mut Rng) {
    let n = 1 + rng.usize_below(3);
    let descs: Vec<DeviceDesc> = (0..n).map(|_| dev(rng, true)).collect();
    let mut net = Net::chain(descs);
    let busy = *rng.pick(&[0u32, 1, 2, 3]);
    for d in net.devs.iter_mut() {
        d.mailbox.od.insert((0x2000, 1), rng.bytes(4));
        d.mailbox.od.insert((0x2002, 1), rng.bytes(4));
        d.mailbox.od.insert((0x2001, 0), (0..20).collect());
        d.desc.coe_pdo = false;
        d.sii_script.busy_polls = busy;
        // distinct bytes everywhere in the part of the EEPROM the operations read
        let fill = rng.bytes(64);
        d.eeprom[0x40..0x80].copy_from_slice(&fill);
    }
    let victim = rng.usize_below(n);
    let op = rng.below(7);
    let f = rng.below(16);
    let seed = rng.u64();
    let opname = ["register_read", "register_write", "status", "eeprom_read_raw", "eeprom_read", "sdo_read", "sdo_write"][op as usize];
    let scenario = json!({"case": case, "part": "C", "op": opname, "devices": n, "victim": victim, "missed_step": f, "sii_busy_polls": busy});
    let res = std::panic::catch_unwind(std::panic::AssertUnwindSafe(|| {
        with_sim(net, seed, &MdCfg::default(), |md: &MainDevice, sim: &mut Sim| {
            let g: SubDeviceGroup<4, 64> = match sim.run(md.init_single_group::<4, 64>(|| 0)) {
                Ok(Ok(g)) => g,
                other => return Err(format!("init: {:?}", other.map(|r| r.map(|_| ())))),
            };
            // truth and length from a fault-free run
            let before = sim.net.frame_no;
            let clean = run_op(sim, md, &g, victim, op);
            let len = sim.net.frame_no - before;
            // leave different stale content behind
            let _ = run_op_other(sim, md, &g, victim, op);
            let step = f % len.max(1);
            let at = sim.net.frame_no + 1 + step;
            sim.net.faults.miss = Some((victim, at));
            sim.net.keep_log = true;
            sim.net.log.clear();
            let faulted = run_op(sim, md, &g, victim, op);
            sim.net.keep_log = false;
            sim.net.faults.miss = None;
            // what did the missed frame carry for the victim?
            let station = 0x1000 + victim as u16;
            let missed: Vec<(u8, u16)> = sim.net.log.iter().filter(|l| l.frame_no == at).flat_map(|l| l.tx.dgrams.iter().filter(|d| matches!(d.cmd, wire::CMD_FPRD | wire::CMD_FPWR | wire::CMD_FPRW | wire::CMD_FRMW) && d.adp() == station).map(|d| (d.cmd, d.ado())).collect::<Vec<_>>()).collect();
            Ok((clean, len, step, faulted, missed))
        })
    }));
    sh.count(&format!("C.op.{opname}"));
    match res {
        Err(p) => {
            let msg = p.downcast_ref::<String>().cloned().or_else(|| p.downcast_ref::<&str>().map(|s| s.to_string())).unwrap_or_default();
            sh.violation(&format!("C11:panic:{opname}"), msg, scenario);
        }
        Ok(Err(e)) => sh.violation("C11:init-failed", e, scenario),
        Ok(Ok((clean, len, step, faulted, missed))) => {
            sh.case(Some(fnv_mix(fnv_mix(fnv_mix(fnv_mix(case, op), step), victim as u64), 0xC)));
            let Ok(truth) = clean else {
                sh.violation(&format!("C11:clean-run-failed:{opname}"), format!("{clean:?}"), scenario.clone());
                return;
            };
            let read_missed = missed.iter().any(|(c, _)| *c != wire::CMD_FPWR);
            let checked_write_missed = op == 1 && missed.iter().any(|(c, _)| *c == wire::CMD_FPWR);
            if missed.is_empty() {
                sh.count("C.missed_frame_not_for_victim");
            } else if read_missed {
                sh.count("C.missed_read");
            } else {
                sh.count("C.missed_write");
            }
            match faulted {
                Err(e) => {
                    sh.count("C.rejected");
                    sh.count(&format!("C.error.{}", e.split(|c: char| c == ' ' || c == '{' || c == '(').next().unwrap_or("")));
                }
                Ok(what) if what != truth && !missed.is_empty() && (read_missed || checked_write_missed) => {
                    sh.violation(&format!("C11:wrong-data-after-missed-frame:{opname}"), format!("device {victim} missed step {step} of {len} ({missed:x?}, SII busy polls {busy}); the call returned {what}, the truth is {truth}"), scenario)
                }
                // register / EEPROM reads hand back exactly what the missed datagram should have carried:
                // every one of their reads is checked, so success is not acceptable
                Ok(what) if (read_missed || checked_write_missed) && op <= 4 => {
                    sh.violation(&format!("C11:success-despite-missed-datagram:{opname}"), format!("device {victim} missed step {step} of {len} ({missed:x?}, SII busy polls {busy}); the call returned {what}"), scenario)
                }
                Ok(what) => {
                    if what != truth {
                        // only reachable when the missed frame carried nothing but exempt (fire-and-forget) writes
                        sh.count("C.unjudged_wrong_after_missed_exempt_write");
                        sh.observe("C.unjudged", format!("{opname}: missed {missed:x?}: {what} vs {truth}"));
                    } else {
                        sh.count("C.correct_value_despite_miss");
                    }
                }
            }
        }
    }
}

/// The same kind of operation on a different address / object (to leave other stale content).
fn run_op_other<'a>(sim: &mut Sim<'a>, md: &'a MainDevice<'a>, g: &SubDeviceGroup<4, 64>, victim: usize, op: u64) -> Result<String, String> {
    let sd = g.subdevice(md, victim).map_err(|e| format!("{e:?}"))?;
    let flat = |r: Result<Result<String, Error>, Stop>| match r {
        Ok(Ok(s)) => Ok(s),
        Ok(Err(e)) => Err(format!("{e:?}")),
        Err(s) => Err(format!("{s:?}")),
    };
    match op {
        0 | 1 | 2 => flat(sim.run(sd.register_read::<u16>(0x0012u16)).map(|r| r.map(|v| format!("{v:#x}")))),
        3 | 4 => {
            let mut buf = [0u8; 8];
            flat(sim.run(sd.eeprom_read_raw(md, 0x30, &mut buf)).map(|r| r.map(|v| format!("{v} bytes"))))
        }
        _ => flat(sim.run(sd.sdo_read::<u32>(0x2002, 1)).map(|r| r.map(|v| format!("{v:#x}")))),
    }
}

fn run_op<'a>(sim: &mut Sim<'a>, md: &'a MainDevice<'a>, g: &SubDeviceGroup<4, 64>, victim: usize, op: u64) -> Result<String, String> {
    let sd = g.subdevice(md, victim).map_err(|e| format!("{e:?}"))?;
    let flat = |r: Result<Result<String, Error>, Stop>| match r {
        Ok(Ok(s)) => Ok(s),
        Ok(Err(e)) => Err(format!("{e:?}")),
        Err(s) => Err(format!("{s:?}")),
    };
    match op {
        0 => flat(sim.run(sd.register_read::<u16>(0x0010u16)).map(|r| r.map(|v| format!("{v:#x}")))),
        1 => flat(sim.run(sd.register_write::<u16>(0x0f00u16, 0xbeef)).map(|r| r.map(|v| format!("{v:#x}")))),
        2 => flat(sim.run(sd.status()).map(|r| r.map(|v| format!("{v:?}")))),
        3 => {
            let mut buf = [0u8; 24];
            let r = sim.run(sd.eeprom_read_raw(md, 0x22, &mut buf));
            flat(r.map(|r| r.map(|v| format!("{v} bytes {}", vh::shard::hex(&buf)))))
        }
        4 => flat(sim.run(sd.eeprom_read::<u32>(md, 0x24)).map(|r| r.map(|v| format!("{v:#x}")))),
        5 => flat(sim.run(sd.sdo_read::<u32>(0x2000, 1)).map(|r| r.map(|v| format!("{v:#x}")))),
        6 => flat(sim.run(sd.sdo_write(0x2000, 1, 0x55aa_1234u32)).map(|r| r.map(|_| "written".to_string()))),
        _ => unreachable!(),
    }
}
