//! C06, exactness clauses (M-deadline), sequential and fully enumerated:
//! for every retry policy None/Count(0..3)/Forever, every subset of lost transmissions, and every
//! placement of "response already received" relative to the deadline, the number of transmissions,
//! their byte-identity, the result and the virtual time of resolution are checked.
//! The transmit task services every sendable frame before the next deadline (the clause's
//! assumption holds by construction).

use ethercrab::error::{Error, TimeoutError};
use ethercrab::verif as ev;
use ethercrab::{PduStorage, ReceiveAction};
use serde_json::json;
use std::task::Poll;
use std::time::Duration;
use vh::pl::*;
use vh::prng::fnv_mix;
use vh::shard::{Args, Shard, hex};
use vh::vclock;

fn main() {
    let args = Args::parse();
    let mut sh = Shard::new("C06", &args);
    vh::shard::quiet_panics();
    // The space is small: enumerate it completely on every shard-0 run; other shards vary the
    // payloads/timeouts with the seed.
    let mut case = 0u64;
    for retries in [0usize, 1, 2, 3, usize::MAX] {
        let n_tx = if retries == usize::MAX { 7 } else { retries + 1 };
        for lost_mask in 0..(1u32 << n_tx.min(4)) {
            for late_poll in [false, true] {
                for timeout_us in [1u64, 50, 30_000] {
                    case += 1;
                    if case % args.shards != args.shard {
                        continue;
                    }
                    let mut rng = args.rng().fork(case);
                    let len = rng.usize_below(40);
                    let payload = rng.bytes(len);
                    sh.guard_case(case, |sh| run(sh, case, retries, n_tx, lost_mask, late_poll, timeout_us, &payload));
                }
            }
        }
    }
    sh.count("enumeration_complete");
    sh.finish();
}

#[allow(clippy::too_many_arguments)]
fn run(sh: &mut Shard, case: u64, retries: usize, n_tx: usize, lost_mask: u32, late_poll: bool, timeout_us: u64, payload: &[u8]) {
    vclock::reset(10);
    let storage = PduStorage::<1, 128>::new();
    let (mut tx, mut rx, pl) = storage.try_split().unwrap();
    let (_c, waker) = count_waker();
    let mut f = ev::alloc_frame(&pl).unwrap();
    let h = f.push_pdu(make_command(8, 0x1234, 0x5678), payload, None).unwrap();
    let t0 = vclock::now();
    let mut fut = Box::pin(ev::mark_sendable(f, &pl, Duration::from_micros(timeout_us), retries));
    let replay = json!({"case": case, "retries": if retries == usize::MAX { -1 } else { retries as i64 }, "lost_mask": lost_mask, "late_poll": late_poll, "timeout_us": timeout_us});
    let mut sent: Vec<Vec<u8>> = vec![];
    let mut outcome: Option<Result<Vec<u8>, Error>> = None;
    let mut answered_at: Option<usize> = None;

    // One period = poll, TX services everything, maybe the answer arrives, deadline passes.
    for period in 0..n_tx + 2 {
        match poll_once(&mut fut, &waker) {
            Poll::Ready(r) => {
                outcome = Some(r.and_then(|rf| rf.first_pdu(ev::PduResponseHandle { index_in_frame: h.index_in_frame, pdu_idx: h.pdu_idx, command_code: h.command_code, alloc_size: h.alloc_size }).map(|p| p.to_vec())));
                break;
            }
            Poll::Pending => {}
        }
        let frames = tx_all(&mut tx);
        if frames.len() > 1 {
            sh.violation("C06:more-than-one-transmission-per-period", format!("{} frames in period {period}", frames.len()), replay.clone());
        }
        for b in frames {
            let k = sent.len();
            sent.push(b.clone());
            let lost = k >= 32 || (lost_mask >> k.min(31)) & 1 == 1 || (k >= 4 && retries == usize::MAX);
            if !lost && answered_at.is_none() {
                let resp = respond(&b, |_, d| {
                    d.wkc = 7;
                    for x in d.data.iter_mut() {
                        *x = !*x;
                    }
                });
                let r = rx.receive_frame(&resp);
                if r != Ok(ReceiveAction::Processed) {
                    sh.violation("C06:genuine-response-refused", format!("transmission {k}: {r:?}"), replay.clone());
                }
                answered_at = Some(k);
            }
        }
        if answered_at.is_some() && late_poll {
            // The response is in, but the caller only looks after the deadline has passed: the
            // response must win.
            vclock::advance_by(timeout_us + 5);
            sh.count("response_received_before_deadline_examined");
        } else if answered_at.is_none() {
            vclock::advance_by(timeout_us);
        }
        if retries == usize::MAX && period == n_tx {
            break;
        }
    }
    let elapsed = vclock::now() - t0;
    sh.case(Some(fnv_mix(fnv_mix(fnv_mix(fnv_mix(0xC06D, retries as u64), lost_mask as u64), late_poll as u64), timeout_us)));
    sh.add("transmissions", sent.len() as u64);
    sh.count(&format!("policy.{}", if retries == usize::MAX { "forever".into() } else { format!("count{retries}") }));

    if sent.windows(2).any(|w| w[0] != w[1]) {
        sh.violation("C06:retransmission-differs", format!("{:?}", sent.iter().map(|b| hex(b)).collect::<Vec<_>>()), replay.clone());
    }
    let want_resp: Vec<u8> = payload.iter().map(|x| !*x).collect();
    match (answered_at, &outcome) {
        (Some(k), Some(Ok(data))) => {
            sh.count("completed_with_response");
            if *data != want_resp {
                sh.violation("C06:wrong-data-after-retry", format!("got {} want {}", hex(data), hex(&want_resp)), replay.clone());
            }
            if sent.len() != k + 1 {
                sh.violation("C06:transmission-count", format!("answered at transmission {k} but {} transmissions seen", sent.len()), replay.clone());
            }
        }
        (Some(k), other) => {
            sh.violation(
                if late_poll { "C06:deadline-beats-received-response" } else { "C06:answered-request-did-not-complete" },
                format!("transmission {k} was answered but the outcome is {:?}", other.as_ref().map(|r| r.as_ref().map(|_| "ok").map_err(|e| format!("{e:?}")))),
                replay.clone(),
            );
        }
        (None, Some(Err(Error::Timeout(TimeoutError::Pdu)))) => {
            sh.count("timed_out");
            if retries == usize::MAX {
                sh.violation("C06:forever-gave-up", format!("after {} transmissions", sent.len()), replay.clone());
            } else {
                if sent.len() != retries + 1 {
                    sh.violation("C06:transmission-count", format!("{} transmissions with {retries} retries configured (all lost)", sent.len()), replay.clone());
                }
                // bounded: resolves by (retries+1)*timeout (+ one period of slack for the poll)
                if elapsed > (retries as u64 + 2) * timeout_us {
                    sh.violation("C06:late-timeout", format!("resolved after {elapsed} us, bound {}", (retries as u64 + 2) * timeout_us), replay.clone());
                }
            }
        }
        (None, Some(Ok(_))) => sh.violation("C06:success-without-response", "no transmission was answered".into(), replay.clone()),
        (None, Some(Err(e))) => sh.violation("C06:wrong-error-kind", format!("{e:?}"), replay.clone()),
        (None, None) => {
            if retries == usize::MAX {
                sh.count("forever_still_retrying");
                if sent.len() < n_tx {
                    sh.violation("C06:forever-stopped-retransmitting", format!("{} transmissions in {} periods", sent.len(), n_tx + 1), replay.clone());
                }
            } else {
                sh.violation("C06:request-hangs", format!("unresolved after {} periods, {} transmissions", n_tx + 2, sent.len()), replay.clone());
            }
        }
    }
    drop(fut);
    if states(&pl).iter().any(|s| *s != ST_NONE) {
        sh.violation("C06:slot-lost-after-quiescence", format!("{:?}", states(&pl)), replay.clone());
    }
    if sh.wants_sample() && sent.len() > 1 {
        sh.sample(json!({"retries": if retries == usize::MAX { -1 } else { retries as i64 }, "lost_mask": lost_mask, "late_poll": late_poll, "timeout_us": timeout_us, "transmissions": sent.len(), "outcome": format!("{:?}", outcome.as_ref().map(|r| r.is_ok()))}));
    }
}
