//! C18 — DC sync set-up and per-cycle timing arithmetic are exact and total.

use ethercrab::error::{DistributedClockError, Error};
use ethercrab::subdevice_group::DcConfiguration;
use ethercrab::{DcSync, MainDevice, SubDeviceGroup};
use serde_json::json;
use std::time::Duration;
use vh::prng::{Rng, fnv, fnv_mix};
use vh::shard::{Args, Shard};
use vh::sim::desc::*;
use vh::sim::device::*;
use vh::sim::{Net, Sim, Stop};
use vh::simrun::*;

const U32M: u64 = u32::MAX as u64;

fn main() {
    let args = Args::parse();
    let mut sh = Shard::new("C18", &args);
    std::panic::set_hook(Box::new(|_| {}));
    let n = args.cases(1_600, 160_000);
    for i in 0..n {
        let case = args.case_id(i);
        if let Some(only) = args.only_case {
            if only != case {
                continue;
            }
        }
        let mut rng = args.rng().fork(case ^ 0xC18);
        run_case(&mut sh, case, &mut rng);
    }
    sh.finish();
}

fn pick_ns(rng: &mut Rng) -> u64 {
    match rng.below(10) {
        0 => 1,
        1 => 2,
        2 => U32M,
        3 => U32M + 1,
        4 => U32M - 1,
        5 => 1_000_000,
        6 => 999_999_937,
        _ => rng.range(1, U32M),
    }
}

fn pick_time(rng: &mut Rng, p: u64) -> u64 {
    match rng.below(12) {
        0 => 0,
        1 => p - 1,
        2 => p,
        3 => (1 << 32) - 1,
        4 => 1 << 32,
        5 => (1 << 32) + 1,
        6 => (1 << 63) - 1,
        7 => 1 << 63,
        8 => (1 << 63) + 1,
        9 => u64::MAX,
        10 => u64::MAX - 1,
        _ => rng.u64() >> rng.below(50),
    }
}

fn run_case(sh: &mut Shard, case: u64, rng: &mut Rng) {
    let n = 1 + rng.usize_below(8);
    // DC support level per device: 0 none, 1 ref-only, 2 32 bit, 3 64 bit
    let levels: Vec<u8> = (0..n).map(|_| rng.below(4) as u8).collect();
    // requested mode: 0 disabled, 1 sync0, 2 sync01
    let modes: Vec<u8> = (0..n).map(|_| rng.below(3) as u8).collect();
    let sync1: Vec<u64> = (0..n).map(|_| rng.range(1, U32M)).collect();
    let descs: Vec<DeviceDesc> = levels
        .iter()
        .map(|l| {
            let mut d = DeviceDesc::simple("DCS");
            d.dc_supported = *l >= 1;
            d.dc_enhanced = *l >= 2;
            d.dc_64 = *l == 3;
            d
        })
        .collect();
    let period = pick_ns(rng);
    let delay = pick_ns(rng);
    let shift = pick_ns(rng);
    let ref_setup = match rng.below(5) {
        0 => pick_time(rng, period),
        _ => rng.u64() >> (1 + rng.below(40)),
    };
    let cycle_times: Vec<u64> = (0..6).map(|_| pick_time(rng, period.min(U32M).max(1))).collect();
    let any_dc = levels.iter().any(|l| *l >= 1);
    let net = Net::chain(descs);
    let seed = rng.u64();
    let scenario = json!({"case": case, "levels": levels, "modes": modes, "period_ns": period, "start_delay_ns": delay, "shift_ns": shift, "ref_time_at_setup": ref_setup, "cycle_ref_times": cycle_times});
    let (levels2, modes2, sync12, cycle2) = (levels.clone(), modes.clone(), sync1.clone(), cycle_times.clone());

    type Obs = (Result<(), String>, Vec<Vec<(u16, Vec<u8>)>>, Vec<(u64, u64, u64, u64)>);
    let res: std::thread::Result<Result<Obs, String>> = std::panic::catch_unwind(std::panic::AssertUnwindSafe(|| {
        with_sim(net, seed, &MdCfg { dc_static_sync_iterations: 0, ..Default::default() }, |md: &MainDevice, sim: &mut Sim| {
            let mut g: SubDeviceGroup<8, 8> = match sim.run(md.init_single_group::<8, 8>(|| 5_000)) {
                Ok(Ok(g)) => g,
                other => return Err(format!("init: {:?}", other.map(|r| r.map(|_| ())))),
            };
            for (i, mut sd) in g.iter_mut(md).enumerate() {
                sd.set_dc_sync(match modes2[i] {
                    0 => DcSync::Disabled,
                    1 => DcSync::Sync0,
                    _ => DcSync::Sync01 { sync1_period: Duration::from_nanos(sync12[i]) },
                });
            }
            let g = match sim.run(g.into_pre_op_pdi(md)) {
                Ok(Ok(g)) => g,
                other => return Err(format!("into_pre_op_pdi: {:?}", other.map(|r| r.map(|_| ())))),
            };
            let refdev = levels2.iter().position(|l| *l >= 1);
            if let Some(r) = refdev {
                sim.net.devs[r].systime_script = vec![ref_setup];
                sim.net.devs[r].systime_reads = 0;
            }
            let marks: Vec<usize> = sim.net.devs.iter().map(|d| d.writes.len()).collect();
            let r = sim.run(g.configure_dc_sync(md, DcConfiguration { start_delay: Duration::from_nanos(delay), sync0_period: Duration::from_nanos(period), sync0_shift: Duration::from_nanos(shift) }));
            let writes: Vec<Vec<(u16, Vec<u8>)>> = sim.net.devs.iter().zip(marks).map(|(d, m)| d.writes[m..].iter().filter(|w| (0x0980..0x09b0).contains(&w.addr)).map(|w| (w.addr, w.data.clone())).collect()).collect();
            match r {
                Err(Stop::Stuck) => Err("hang".into()),
                Err(Stop::Budget) => Err("budget".into()),
                Ok(Err(e)) => Ok((Err(format!("{e:?}")), writes, vec![])),
                Ok(Ok(g)) => {
                    // cycles
                    let g = match sim.run(g.into_op(md)) {
                        Ok(Ok(g)) => g,
                        other => return Err(format!("into_op: {:?}", other.map(|r| r.map(|_| ())))),
                    };
                    let mut cycles = vec![];
                    for t in &cycle2 {
                        let r = refdev.unwrap();
                        sim.net.devs[r].systime_script = vec![*t];
                        sim.net.devs[r].systime_reads = 0;
                        match sim.run(g.tx_rx_dc(md)) {
                            Ok(Ok(resp)) => cycles.push((*t, resp.extra.dc_system_time, resp.extra.cycle_start_offset.as_nanos() as u64, resp.extra.next_cycle_wait.as_nanos() as u64)),
                            other => return Err(format!("cycle: {:?}", other.map(|r| r.map(|_| ())))),
                        }
                    }
                    Ok((Ok(()), writes, cycles))
                }
            }
        })
    }));
    sh.case(Some(fnv_mix(fnv(scenario.to_string().as_bytes()), case)));
    let (result, writes, cycles) = match res {
        Err(p) => {
            let msg = p.downcast_ref::<String>().cloned().or_else(|| p.downcast_ref::<&str>().map(|s| s.to_string())).unwrap_or_default();
            let representable = ref_setup.checked_add(delay).is_some();
            if !representable && msg.contains("overflow") {
                // reference time + start delay exceeds u64: the interval of the statement is not
                // representable; recorded only
                sh.observe("setup_time_not_representable", format!("{msg} (debug build: {})", cfg!(debug_assertions)));
                return;
            }
            let cls: String = msg.chars().filter(|c| !c.is_ascii_digit()).take(44).collect();
            sh.violation(&format!("C18:panic:{}", cls.trim().replace(' ', "-")), msg, scenario);
            return;
        }
        Ok(Err(e)) => {
            sh.violation(&format!("C18:harness-step-failed:{}", e.split(':').next().unwrap_or("")), e, scenario);
            return;
        }
        Ok(Ok(v)) => v,
    };
    let mut problems: Vec<String> = vec![];
    let too_big = period > U32M || delay > U32M;
    match &result {
        Err(e) => {
            sh.count("setup_rejected");
            if !any_dc {
                sh.count("no_reference_rejected");
                if !e.contains("NoReference") {
                    problems.push(format!("no-reference-wrong-error:{e}"));
                }
            } else if !too_big {
                problems.push(format!("setup-rejected:period {period} delay {delay} both fit 32 bit: {e}"));
            } else {
                sh.count("over_32bit_rejected");
            }
        }
        Ok(()) => {
            sh.count("setup_ok");
            if !any_dc {
                problems.push("no-reference-accepted:".into());
            }
            if too_big {
                problems.push(format!("over-32bit-accepted:period {period} delay {delay}"));
            }
        }
    }
    if result.is_ok() || !too_big {
        // register writes: only devices that support DC and asked for it
        for i in 0..n {
            let wants = levels[i] >= 1 && modes[i] != 0;
            let w = &writes[i];
            if !wants {
                if !w.is_empty() {
                    problems.push(format!("touched-unrequested-device:device {i} (level {}, mode {}) got writes to {:x?}", levels[i], modes[i], w.iter().map(|x| x.0).collect::<Vec<_>>()));
                }
                continue;
            }
            if result.is_err() {
                continue;
            }
            let get = |addr: u16| w.iter().rev().find(|x| x.0 == addr).map(|x| x.1.clone());
            let u = |b: Option<Vec<u8>>| b.map(|v| {
                let mut a = [0u8; 8];
                let n = v.len().min(8);
                a[..n].copy_from_slice(&v[..n]);
                u64::from_le_bytes(a)
            });
            let start = u(get(REG_DC_START as u16));
            let c0 = u(get(REG_DC_CYCLE0 as u16));
            let c1 = u(get(REG_DC_CYCLE1 as u16));
            let act = get(REG_DC_SYNC_ACT as u16).map(|v| v[0]);
            match (start, ref_setup.checked_add(delay)) {
                (Some(s), Some(hi)) => {
                    if s % period != 0 || s > hi || hi - s >= period {
                        problems.push(format!("start-time:device {i} start {s}, reference {ref_setup} + delay {delay} = {hi}, period {period}"));
                    }
                }
                (Some(_), None) => sh.count("start_interval_not_representable"),
                (None, _) => problems.push(format!("start-time-missing:device {i}")),
            }
            if c0.map(|v| v & 0xffff_ffff) != Some(period) {
                problems.push(format!("cycle0:device {i} holds {c0:?}, period {period}"));
            }
            let want_act = if modes[i] == 2 { 0x07 } else { 0x03 };
            if act != Some(want_act) {
                problems.push(format!("activation:device {i} mode {} activation {act:?}", modes[i]));
            }
            if modes[i] == 2 && c1.map(|v| v & 0xffff_ffff) != Some(sync1[i]) {
                problems.push(format!("cycle1:device {i} holds {c1:?}, sync1 period {}", sync1[i]));
            }
            if modes[i] == 1 && c1.is_some() {
                problems.push(format!("cycle1-written-in-sync0-mode:device {i}"));
            }
        }
    }
    for (t, rep, off, wait) in &cycles {
        sh.count("cycles");
        if rep != t {
            problems.push(format!("cycle-time:reported {rep}, reference answered {t}"));
        }
        if *off != t % period {
            problems.push(format!("cycle-offset:{off} for time {t} period {period}"));
        }
        if *wait != (period - t % period) + shift {
            problems.push(format!("cycle-wait:{wait} for time {t} period {period} shift {shift}"));
        }
    }
    let mut seen = std::collections::BTreeSet::new();
    for p in problems {
        let kind = p.split(':').next().unwrap().to_string();
        if seen.insert(kind.clone()) {
            sh.violation(&format!("C18:{kind}"), p, scenario.clone());
        }
    }
    if sh.wants_sample() && !cycles.is_empty() {
        sh.sample(json!({"scenario": scenario, "cycles": cycles}));
    }
}
