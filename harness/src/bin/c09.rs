//! C09 — initialisation finds every SubDevice once and addresses each distinctly.

use ethercrab::error::{Error, Item};
use ethercrab::{DcSupport, MainDevice, SubDeviceGroup, SubDeviceGroupHandle};
use serde_json::json;
use vh::prng::{Rng, fnv, fnv_mix};
use vh::shard::{Args, Shard};
use vh::sim::desc::{DeviceDesc, GenOpts, gen_desc};
use vh::sim::device::*;
use vh::sim::{Net, Sim, Stop, Topology};
use vh::simrun::*;

#[derive(Default)]
struct Groups<const M: usize> {
    g: [SubDeviceGroup<M, 64>; 3],
}

fn main() {
    let args = Args::parse();
    let mut sh = Shard::new("C09", &args);
    std::panic::set_hook(Box::new(|_| {}));
    let n = args.cases(320, 40_000);
    for i in 0..n {
        let case = args.case_id(i);
        if let Some(only) = args.only_case {
            if only != case {
                continue;
            }
        }
        let mut rng = args.rng().fork(case ^ 0xC09);
        match case % 4 {
            0 => run_case::<2>(&mut rng, &mut sh, case),
            1 => run_case::<4>(&mut rng, &mut sh, case),
            2 => run_case::<8>(&mut rng, &mut sh, case),
            _ => run_case::<16>(&mut rng, &mut sh, case),
        }
    }
    sh.finish();
}

fn expected_name(d: &DeviceDesc) -> String {
    let n = if d.has_general { d.name() } else { None };
    n.unwrap_or_else(|| format!("manu. {:#010x}, device {:#010x}, serial {:#010x}", d.vendor, d.product, d.serial))
}

fn expected_dc(d: &DeviceDesc) -> DcSupport {
    if !d.dc_supported {
        DcSupport::None
    } else if !d.dc_enhanced {
        DcSupport::RefOnly
    } else if d.dc_64 {
        DcSupport::Bits64
    } else {
        DcSupport::Bits32
    }
}

fn run_case<const M: usize>(rng: &mut Rng, sh: &mut Shard, case: u64) {
    // 0..M+2 devices, biased to the boundaries
    let n = match rng.below(6) {
        0 => 0,
        1 => M,
        2 => M + 1,
        3 => M + 2,
        _ => rng.usize_below(M + 1),
    };
    let k_groups = 1 + rng.usize_below(3);
    // names up to exactly the 64 bytes the API can hold (longer ones are C12's StringTooLong case)
    let opts = GenOpts { max_strings: 6, max_string_len: *rng.pick(&[30usize, 64, 64]), nasty_strings: true, ..Default::default() };
    let mut descs: Vec<DeviceDesc> = (0..n)
        .map(|_| {
            let mut d = gen_desc(rng, &opts);
            // C09 wants well-formed EEPROMs: string indices inside the table
            let ns = d.strings.len() as u8;
            for idx in [&mut d.group_idx, &mut d.image_idx, &mut d.order_idx, &mut d.name_idx] {
                if *idx > ns {
                    *idx = ns;
                }
            }
            d
        })
        .collect();
    // stale station addresses: duplicates and collisions with the 0x1000 range on purpose
    if n >= 2 && rng.bool() {
        let a = descs[0].stale_address;
        descs[n - 1].stale_address = a;
    }
    if n >= 1 && rng.bool() {
        descs[rng.usize_below(n)].stale_address = 0x1000 + rng.below(n as u64) as u16;
    }
    let topo = Topology::chain(n, 50 + rng.below(500));
    let mut net = Net::new(descs.clone(), topo);
    let empty_echo_unmodified = n == 0 && rng.bool();
    net.empty_sets_ul_bit = !empty_echo_unmodified;
    let cfg = MdCfg { dc_static_sync_iterations: rng.below(3) as u32, ..Default::default() };
    let seed = rng.u64();
    let scenario = json!({"case": case, "devices": n, "max": M, "groups": k_groups, "names": descs.iter().map(expected_name).collect::<Vec<_>>(), "stale": descs.iter().map(|d| d.stale_address).collect::<Vec<_>>()});

    let res = std::panic::catch_unwind(std::panic::AssertUnwindSafe(|| {
        with_sim(net, seed, &cfg, |md: &MainDevice, sim: &mut Sim| {
            let mut counter = 0usize;
            let r = sim.run(md.init::<M, _>(
                || 123_456_789,
                Groups::<M>::default(),
                |g: &Groups<M>, _sd| {
                    let i = counter % k_groups;
                    counter += 1;
                    Ok(&g.g[i] as &dyn SubDeviceGroupHandle)
                },
            ));
            // collect observations while everything is alive
            let mut obs = vec![];
            let mut total = 0;
            if let Ok(Ok(groups)) = &r {
                for (gi, g) in groups.g.iter().enumerate() {
                    total += g.len();
                    for sd in g.iter(md) {
                        obs.push((gi, sd.configured_address(), sd.name().to_string(), sd.identity(), sd.alias_address(), sd.dc_support()));
                    }
                }
            }
            let stations: Vec<u16> = sim.net.devs.iter().map(|d| d.station()).collect();
            let states: Vec<(u8, bool)> = sim.net.devs.iter().map(|d| (d.al_state, d.al_error)).collect();
            let malformed = sim.net.malformed.clone();
            (r.map(|x| x.map(|_| ())), obs, total, md.num_subdevices(), stations, states, malformed, sim.frames_tx, vh::vclock::now())
        })
    }));
    if n <= M && descs.iter().any(|d| expected_name(d).len() == 64) {
        sh.count("device_name_fills_the_64_byte_capacity");
    }
    let nontrivial = n >= 2 || n > M || n == 0;
    sh.case(if nontrivial { Some(fnv_mix(fnv(scenario.to_string().as_bytes()), case)) } else { None });
    sh.count(&format!("devices.{}", if n == 0 { "0".into() } else if n > M { "over-capacity".to_string() } else if n == M { "at-capacity".into() } else { "some".into() }));
    let (r, obs, total, num, stations, states, malformed, frames, vt) = match res {
        Err(p) => {
            let msg = p.downcast_ref::<String>().cloned().or_else(|| p.downcast_ref::<&str>().map(|s| s.to_string())).unwrap_or_default();
            sh.violation(&format!("C09:panic:{}", if n > M { "over-capacity" } else { "init" }), format!("init panicked: {msg}"), scenario);
            return;
        }
        Ok(v) => v,
    };
    sh.add("frames", frames);
    sh.max("virtual_time_us", vt);
    if !malformed.is_empty() {
        sh.violation("C04:malformed-frame-on-wire", malformed.join("; "), scenario.clone());
    }
    match r {
        Err(Stop::Budget) => {
            sh.inconclusive = Some(format!("case {case}: executor budget exhausted"));
        }
        Err(Stop::Stuck) => sh.violation("C09:init-hangs", "no frame in flight and no timer pending, init never returned".into(), scenario),
        Ok(Err(e)) => {
            if n > M {
                sh.count("over_capacity_rejected");
                if !matches!(e, Error::Capacity(Item::SubDevice)) {
                    sh.violation(&format!("C09:over-capacity-wrong-error:{}", variant(&e)), format!("{n} devices, capacity {M}: {e:?}"), scenario);
                }
            } else if empty_echo_unmodified {
                // own echo is ignored, so the count request times out: recorded, not judged
                sh.observe("empty_network_unmodified_echo", format!("{e:?}"));
            } else {
                sh.violation(&format!("C09:init-failed:{}", variant(&e)), format!("{n} devices, capacity {M}: {e:?}"), scenario);
            }
        }
        Ok(Ok(())) => {
            if n > M {
                sh.violation("C09:over-capacity-accepted", format!("{n} devices, capacity {M}: init returned Ok, {total} devices in groups"), scenario);
                return;
            }
            sh.count("init_ok");
            if n == 0 {
                sh.count("empty_network_ok");
            }
            let mut problems = vec![];
            if num != n {
                problems.push(format!("count:num_subdevices {num} != {n}"));
            }
            if total != n {
                problems.push(format!("grouping:sum of group lengths {total} != {n}"));
            }
            for (i, st) in stations.iter().enumerate() {
                if *st != 0x1000 + i as u16 {
                    problems.push(format!("station-address:device {i} holds {st:#06x}"));
                }
            }
            for (i, (st, err)) in states.iter().enumerate() {
                if *st != AL_PREOP || *err {
                    problems.push(format!("not-preop:device {i} state {st} error {err}"));
                }
            }
            // each reported SubDevice must carry the data of the device at its ring position
            let mut seen = std::collections::BTreeSet::new();
            for (gi, addr, name, ident, alias, dc) in &obs {
                let i = addr.wrapping_sub(0x1000) as usize;
                if i >= n || !seen.insert(i) {
                    problems.push(format!("address:reported address {addr:#06x} out of range or duplicate"));
                    continue;
                }
                let d = &descs[i];
                if *gi != i % k_groups {
                    problems.push(format!("grouping:device {i} in group {gi}"));
                }
                if *name != expected_name(d) {
                    problems.push(format!("name:device {i} reports {name:?}, EEPROM encodes {:?}", expected_name(d)));
                }
                if (ident.vendor_id, ident.product_id, ident.revision, ident.serial) != (d.vendor, d.product, d.revision, d.serial) {
                    problems.push(format!("identity:device {i} reports {ident:?}"));
                }
                if *alias != d.alias {
                    problems.push(format!("alias:device {i} reports {alias:#06x}, EEPROM {:#06x}", d.alias));
                }
                if *dc != expected_dc(d) {
                    problems.push(format!("dc-support:device {i} reports {dc:?} expected {:?}", expected_dc(d)));
                }
            }
            for p in problems {
                let kind = p.split(':').next().unwrap().to_string();
                sh.violation(&format!("C09:wrong-{kind}"), p, scenario.clone());
            }
            if sh.wants_sample() && n >= 3 {
                sh.sample(scenario);
            }
        }
    }
}
