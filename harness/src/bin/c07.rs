//! C07 — one process-data cycle moves the whole image, each byte once, to the right place.
//!
//! The frames of exactly one `tx_rx*` call are taken from the simulated wire and checked against
//! the group's logical window; the image before/after and the returned `TxRxResponse` are compared
//! with what the simulated devices hold / answered.

use ethercrab::subdevice_group::DcConfiguration;
use ethercrab::{DcSync, MainDevice, SubDeviceGroup};
use serde_json::json;
use std::time::Duration;
use vh::prng::{Rng, fnv, fnv_mix};
use vh::shard::{Args, Shard};
use vh::sim::desc::*;
use vh::sim::{Net, Sim, WireLog};
use vh::simrun::*;
use vh::wire;

const MAXD: usize = 64;
const MAXP: usize = 2048;

fn main() {
    let args = Args::parse();
    let mut sh = Shard::new("C07", &args);
    std::panic::set_hook(Box::new(|_| {}));
    let n = args.cases(480, 48_000);
    for i in 0..n {
        let case = args.case_id(i);
        if let Some(only) = args.only_case {
            if only != case {
                continue;
            }
        }
        if std::env::var("VH_PROGRESS").is_ok() {
            eprintln!("case {case} at {:?}", std::time::Instant::now());
        }
        let mut rng = args.rng().fork(case ^ 0xC07);
        run_case(&mut sh, case, &mut rng);
    }
    sh.finish();
}

/// A device with exactly `i` input and `o` output bytes (EEPROM configured).
fn io_device(i: usize, o: usize, dc: bool) -> DeviceDesc {
    let mut d = DeviceDesc::simple("IO");
    d.dc_supported = dc;
    d.dc_enhanced = dc;
    d.dc_64 = dc;
    d.sms = vec![SmDesc { start: 0x1000, len: 0, control: 0x26, enable: 0, usage: 0 }, SmDesc { start: 0x1000, len: 0, control: 0x22, enable: 0, usage: 0 }, SmDesc { start: 0x1100, len: o as u16, control: 0x64, enable: 1, usage: 3 }, SmDesc { start: 0x1900, len: i as u16, control: 0x20, enable: 1, usage: 4 }];
    let mk = |bytes: usize, tx: bool, sm: u8| -> Vec<PdoDesc> {
        let mut left = bytes * 8;
        let mut pdos = vec![];
        let mut k = 0;
        while left > 0 {
            let mut entries = vec![];
            while left > 0 && entries.len() < 200 {
                let b = left.min(248);
                entries.push(PdoEntryDesc { index: 0x6000, sub: entries.len() as u8, bits: b as u8 });
                left -= b;
            }
            pdos.push(PdoDesc { index: if tx { 0x1a00 } else { 0x1600 } + k, sm, tx, entries });
            k += 1;
        }
        pdos
    };
    d.pdos = mk(o, false, 2);
    d.pdos.extend(mk(i, true, 3));
    d.fmmus = vec![1, 2];
    d.ram_bytes = 0x4000;
    d.eeprom_bytes = build_sii(&d).len().next_power_of_two().max(2048);
    d
}

fn run_case(sh: &mut Shard, case: u64, rng: &mut Rng) {
    let variant = rng.below(3); // 0 plain, 1 sync system time, 2 dc
    let n = match rng.below(6) {
        0 => 0,
        1 => 1,
        2 => MAXD,
        _ => 1 + rng.usize_below(20),
    };
    // image length and split
    let image = if n == 0 { 0 } else { *rng.pick(&[0usize, 1, 2, 7, 40, 100, 333, 1000, 1486, 1487, 1500, 2000, MAXP]) + if rng.bool() { 0 } else { rng.usize_below(8) } }.min(MAXP);
    let in_total = match rng.below(4) {
        0 => 0,
        1 => image,
        2 => image.min(1),
        _ => rng.usize_below(image + 1),
    };
    let out_total = image - in_total;
    // distribute over devices
    let mut ins = vec![0usize; n];
    let mut outs = vec![0usize; n];
    if n > 0 {
        let holders = 1 + rng.usize_below(n.min(6));
        for (tot, v) in [(in_total, &mut ins), (out_total, &mut outs)] {
            let mut left = tot;
            for h in 0..holders {
                let share = if h == holders - 1 { left } else { rng.usize_below(left + 1) };
                let dev = rng.usize_below(n);
                v[dev] += share;
                left -= share;
            }
        }
    }
    let dc_any = variant >= 1 || rng.bool();
    let descs: Vec<DeviceDesc> = (0..n).map(|i| io_device(ins[i], outs[i], dc_any && (i == 0 || rng.bool()))).collect();
    // frame size: meet the boundaries of image / dc / state checks
    let dc_bytes = if variant >= 1 && dc_any { 20 } else { 0 };
    let frame_len = {
        let base = 16 + dc_bytes;
        let cand = match rng.below(6) {
            0 => 1514,
            1 => 50 + rng.usize_below(30),
            2 => base + 12 + image + 14 * rng.usize_below(n + 1),
            3 => base + 12 + image / 2 + 14 * rng.usize_below(3),
            4 => base + 14 * (1 + rng.usize_below(n.max(1))),
            _ => 60 + rng.usize_below(1454),
        };
        let cand = (cand as i64 + rng.range(0, 4) as i64 - 2) as usize;
        cand.clamp(50, 1514)
    };
    let net = Net::chain(descs.clone());
    let seed = rng.u64();
    let pat_seed = rng.u64();
    let times: Vec<u64> = vec![rng.u64() >> rng.below(40)];
    let vname = ["tx_rx", "tx_rx_sync_system_time", "tx_rx_dc"][variant as usize];
    // half of the cycles: the segment answers the bytes no device supplied (the outputs) with other
    // bytes than were sent - the local outputs must survive that
    let scramble: u8 = if rng.bool() { 1 + rng.below(255) as u8 } else { 0 };
    // a fifth of the cycles: one SubDevice (not the DC reference, whose answer is the reported time)
    // services nothing during the cycle - its status read comes back unanswered, and it must still
    // have its entry in the state list
    let first_dc = descs.iter().position(|d| d.dc_supported);
    let deaf_candidates: Vec<usize> = (0..n).filter(|i| Some(*i) != first_dc).collect();
    let deaf: Option<usize> = if !deaf_candidates.is_empty() && rng.chance(1, 5) { Some(*rng.pick(&deaf_candidates)) } else { None };
    let scenario = json!({"case": case, "variant": vname, "scramble_unread": scramble, "silent_device": deaf, "devices": n, "image": image, "inputs": in_total, "outputs": out_total, "frame_len": frame_len, "dc": dc_any});
    if std::env::var("VH_PROGRESS").is_ok() {
        eprintln!("{scenario}");
    }
    let times2 = times.clone();

    type Obs = (Vec<WireLog>, Vec<u8>, Vec<u8>, usize, u32, u16, Vec<u8>, Option<u64>, Vec<u16>, Option<u16>);
    let res: std::thread::Result<Result<Obs, String>> = std::panic::catch_unwind(std::panic::AssertUnwindSafe(|| {
        with_sim(net, seed, &MdCfg { frame_len, dc_static_sync_iterations: 0, ..Default::default() }, |md: &MainDevice, sim: &mut Sim| {
            let mut g: SubDeviceGroup<MAXD, MAXP, vh::detlock::DetLock> = match sim.run(md.init::<MAXD, _>(|| 1_000_000, SubDeviceGroup::<MAXD, MAXP, vh::detlock::DetLock>::default(), |g, _sd| Ok(g))) {
                Ok(Ok(g)) => g,
                other => return Err(format!("init: {:?}", other.map(|r| r.map(|_| ())))),
            };
            let dc_ref: Option<u16> = sim.net.devs.iter().position(|d| d.desc.dc_supported).map(|i| 0x1000 + i as u16);
            if variant == 2 {
                if dc_ref.is_none() {
                    return Err("skip: no dc".into());
                }
                for mut sd in g.iter_mut(md) {
                    sd.set_dc_sync(DcSync::Sync0);
                }
            }
            let mut prng = Rng::new(pat_seed);
            macro_rules! after_op {
                ($g:expr, $call:ident) => {{
                    let g = $g;
                    // application writes outputs; devices hold inputs
                    let mut before = vec![];
                    for sd in g.iter(md) {
                        let mut io = sd.io_raw_mut();
                        let o = io.outputs();
                        let p = prng.bytes(o.len());
                        o.copy_from_slice(&p);
                    }
                    for d in sim.net.devs.iter_mut() {
                        let l = d.desc.sm_pd_bytes(3) as usize;
                        let p = prng.bytes(l);
                        d.mem[0x1900..0x1900 + l].copy_from_slice(&p);
                    }
                    // image layout: all inputs first, then outputs, in device order
                    for sd in g.iter(md) {
                        before.extend_from_slice(&sd.inputs_raw());
                    }
                    let in_len = before.len();
                    for sd in g.iter(md) {
                        before.extend_from_slice(&sd.outputs_raw());
                    }
                    if let Some(r) = dc_ref {
                        sim.net.devs[(r - 0x1000) as usize].systime_script = times2.clone();
                        sim.net.devs[(r - 0x1000) as usize].systime_reads = 0;
                    }
                    sim.net.keep_log = true;
                    sim.net.log.clear();
                    sim.net.faults.scramble_unread_lrw = scramble;
                    sim.net.faults.deaf = deaf;
                    let r = match sim.run(g.$call(md)) {
                        Ok(Ok(r)) => r,
                        other => return Err(format!("cycle: {:?}", other.map(|r| r.map(|_| ())))),
                    };
                    sim.net.faults.scramble_unread_lrw = 0;
                    sim.net.faults.deaf = None;
                    sim.net.keep_log = false;
                    let mut after = vec![];
                    for sd in g.iter(md) {
                        after.extend_from_slice(&sd.inputs_raw());
                    }
                    for sd in g.iter(md) {
                        after.extend_from_slice(&sd.outputs_raw());
                    }
                    let states: Vec<u8> = r.subdevice_states.iter().map(|s| u8::from(*s)).collect();
                    let truth: Vec<u16> = sim.net.devs.iter().map(|d| d.last_al_status_read).collect();
                    (std::mem::take(&mut sim.net.log), before, after, in_len, 0u32, r.working_counter, states, r.extra, truth)
                }};
            }
            let start = 0u32;
            let _ = start;
            match variant {
                0 => {
                    let g = match sim.run(g.into_op(md)) {
                        Ok(Ok(g)) => g,
                        other => return Err(format!("into_op: {:?} writes={:?} outs={:?} al={:?}", other.map(|r| r.map(|_| ())), sim.net.devs.iter().filter(|d| d.al_error).take(1).map(|d| d.writes.iter().filter(|w| w.frame > 34).map(|w| (w.addr, w.data.len(), w.frame, w.cmd)).collect::<Vec<_>>()).collect::<Vec<_>>(), sim.net.devs.iter().map(|d| (d.desc.output_bytes(), d.desc.input_bytes())).collect::<Vec<_>>(), sim.net.devs.iter().filter(|d| d.al_error).map(|d| (d.station(), d.al_state, d.al_code, (0..4).map(|i| { let s = d.sm(i); (s.start, s.len, s.enabled) }).collect::<Vec<_>>())).take(2).collect::<Vec<_>>())),
                    };
                    let (log, b, a, il, s, w, st, _e, truth) = after_op!(&g, tx_rx);
                    Ok((log, b, a, il, s, w, st, None, truth, dc_ref))
                }
                1 => {
                    let g = match sim.run(g.into_op(md)) {
                        Ok(Ok(g)) => g,
                        other => return Err(format!("into_op: {:?} writes={:?} outs={:?} al={:?}", other.map(|r| r.map(|_| ())), sim.net.devs.iter().filter(|d| d.al_error).take(1).map(|d| d.writes.iter().filter(|w| w.frame > 34).map(|w| (w.addr, w.data.len(), w.frame, w.cmd)).collect::<Vec<_>>()).collect::<Vec<_>>(), sim.net.devs.iter().map(|d| (d.desc.output_bytes(), d.desc.input_bytes())).collect::<Vec<_>>(), sim.net.devs.iter().filter(|d| d.al_error).map(|d| (d.station(), d.al_state, d.al_code, (0..4).map(|i| { let s = d.sm(i); (s.start, s.len, s.enabled) }).collect::<Vec<_>>())).take(2).collect::<Vec<_>>())),
                    };
                    let (log, b, a, il, s, w, st, e, truth) = after_op!(&g, tx_rx_sync_system_time);
                    Ok((log, b, a, il, s, w, st, e, truth, dc_ref))
                }
                _ => {
                    // documented order: the PDI is configured first (configure_dc_sync on a plain
                    // PRE-OP group returns a PreOpPdi group whose PDI was never configured)
                    let g = match sim.run(g.into_pre_op_pdi(md)) {
                        Ok(Ok(g)) => g,
                        other => return Err(format!("into_pre_op_pdi: {:?}", other.map(|r| r.map(|_| ())))),
                    };
                    let g = match sim.run(g.configure_dc_sync(md, DcConfiguration { start_delay: Duration::from_millis(1), sync0_period: Duration::from_micros(1000), sync0_shift: Duration::from_micros(100) })) {
                        Ok(Ok(g)) => g,
                        other => return Err(format!("configure_dc_sync: {:?}", other.map(|r| r.map(|_| ())))),
                    };
                    let g = match sim.run(g.into_op(md)) {
                        Ok(Ok(g)) => g,
                        other => return Err(format!("into_op: {:?} writes={:?} outs={:?} al={:?}", other.map(|r| r.map(|_| ())), sim.net.devs.iter().filter(|d| d.al_error).take(1).map(|d| d.writes.iter().filter(|w| w.frame > 34).map(|w| (w.addr, w.data.len(), w.frame, w.cmd)).collect::<Vec<_>>()).collect::<Vec<_>>(), sim.net.devs.iter().map(|d| (d.desc.output_bytes(), d.desc.input_bytes())).collect::<Vec<_>>(), sim.net.devs.iter().filter(|d| d.al_error).map(|d| (d.station(), d.al_state, d.al_code, (0..4).map(|i| { let s = d.sm(i); (s.start, s.len, s.enabled) }).collect::<Vec<_>>())).take(2).collect::<Vec<_>>())),
                    };
                    let (log, b, a, il, s, w, st, e, truth) = after_op!(&g, tx_rx_dc);
                    Ok((log, b, a, il, s, w, st, Some(e.dc_system_time), truth, dc_ref))
                }
            }
        })
    }));
    sh.count(&format!("variant.{}", ["tx_rx", "tx_rx_sync_system_time", "tx_rx_dc"][variant as usize]));
    if scramble != 0 {
        sh.count("cycles_with_foreign_bytes_in_unread_answer");
    }
    let (log, before, after, in_len, _start, wkc, states, time, truth, dc_ref) = match res {
        Err(p) => {
            let msg = p.downcast_ref::<String>().cloned().or_else(|| p.downcast_ref::<&str>().map(|s| s.to_string())).unwrap_or_default();
            let sig = if msg.starts_with("self-deadlock") { format!("C07:self-deadlock:{vname}") } else { format!("C07:panic:{vname}") };
            sh.violation(&sig, msg, scenario);
            return;
        }
        Ok(Err(e)) => {
            if e.starts_with("skip") {
                sh.count("skipped_no_dc_device");
            } else if e.starts_with("cycle") {
                sh.violation(&format!("C07:cycle-failed:{}", e.split(|c: char| c == '(' || c == ' ').nth(2).unwrap_or("")), e, scenario);
            } else {
                sh.violation(&format!("C07:setup-failed:{}", e.split(':').next().unwrap_or("")), e, scenario);
            }
            return;
        }
        Ok(Ok(v)) => v,
    };
    let nframes = log.len();
    let nontrivial = nframes >= 2 || image > 0;
    sh.case(if nontrivial { Some(fnv_mix(fnv(scenario.to_string().as_bytes()), nframes as u64)) } else { None });
    sh.add("frames", nframes as u64);
    sh.max("frames_per_cycle", nframes as u64);
    if nframes >= 2 {
        sh.count("multi_frame_cycles");
    }
    let mut problems: Vec<String> = vec![];
    // ---- walk the wire
    let cap = frame_len - 16;
    let mut lrw: Vec<(u32, Vec<u8>, Vec<u8>, u16)> = vec![]; // addr, tx data, rx data, wkc
    let mut frmw = 0;
    let mut checks: Vec<u16> = vec![];
    // what came back for each status read (zeros when nobody serviced it)
    let mut status_answers: Vec<u8> = vec![];
    for (fi, l) in log.iter().enumerate() {
        let tx_len: usize = 16 + l.tx.dgrams.iter().map(|d| d.wire_len()).sum::<usize>();
        if tx_len > frame_len {
            problems.push(format!("frame-too-long:frame {fi} is {tx_len} bytes, limit {frame_len}"));
        }
        let rx = l.rx.as_ref().unwrap();
        for (di, d) in l.tx.dgrams.iter().enumerate() {
            match d.cmd {
                wire::CMD_LRW => lrw.push((d.addr, d.data.clone(), rx.dgrams[di].data.clone(), rx.dgrams[di].wkc)),
                wire::CMD_FRMW => {
                    frmw += 1;
                    if fi != 0 || di != 0 {
                        problems.push(format!("dc-datagram-position:FRMW is datagram {di} of frame {fi}"));
                    }
                    if Some(d.adp()) != dc_ref || d.ado() != 0x0910 || d.data.len() != 8 {
                        problems.push(format!("dc-datagram-wrong:FRMW to {:#06x}:{:#06x} len {}", d.adp(), d.ado(), d.data.len()));
                    }
                }
                wire::CMD_FPRD if d.ado() == 0x0130 => {
                    checks.push(d.adp());
                    status_answers.push(rx.dgrams[di].data.first().copied().unwrap_or(0) & 0x0f);
                }
                other => problems.push(format!("unexpected-datagram:command {other} in a process data cycle")),
            }
        }
    }
    // tiling
    let mut pos: Option<u32> = None;
    let mut total = 0usize;
    for (addr, data, _, _) in &lrw {
        if let Some(p) = pos {
            if *addr != p {
                problems.push(format!("tiling:LRW at {addr:#x} but the previous one ended at {p:#x}"));
            }
        }
        if data.len() + 12 > cap {
            problems.push(format!("tiling:LRW of {} bytes does not fit frame capacity {cap}", data.len()));
        }
        pos = Some(addr + data.len() as u32);
        total += data.len();
    }
    if total != image {
        problems.push(format!("tiling:LRW datagrams carry {total} bytes, the image is {image} bytes"));
    }
    if let Some((first, ..)) = lrw.first() {
        if *first != 0 {
            problems.push(format!("tiling:first LRW at logical {first:#x}, group window starts at 0"));
        }
    }
    // what was sent / returned
    let sent: Vec<u8> = lrw.iter().flat_map(|l| l.1.clone()).collect();
    let returned: Vec<u8> = lrw.iter().flat_map(|l| l.2.clone()).collect();
    if sent.len() == before.len() && sent[in_len..] != before[in_len..] {
        problems.push("outputs-on-wire:bytes on the wire differ from what the application wrote".into());
    }
    if after.len() == before.len() && after[in_len..] != before[in_len..] {
        problems.push("outputs-changed:the output part of the image changed during the cycle".into());
    }
    if returned.len() == after.len() && after[..in_len] != returned[..in_len] {
        problems.push("inputs:the input part of the image differs from what the network returned".into());
    }
    let wsum: u32 = lrw.iter().map(|l| l.3 as u32).sum();
    if wkc as u32 != wsum {
        problems.push(format!("working-counter:reported {wkc}, sum over LRW datagrams {wsum}"));
    }
    // DC
    match variant {
        0 => {
            if frmw != 0 {
                problems.push("dc-datagram-count:plain cycle contains FRMW".into());
            }
        }
        _ => {
            if dc_ref.is_some() {
                if frmw != 1 {
                    problems.push(format!("dc-datagram-count:{frmw} FRMW datagrams in one cycle"));
                }
                if time != Some(times[0]) {
                    problems.push(format!("dc-time:reported {time:?}, reference clock answered {}", times[0]));
                }
            }
        }
    }
    // states: one per SubDevice in group order
    let want_addrs: Vec<u16> = (0..n as u16).map(|i| 0x1000 + i).collect();
    if checks != want_addrs {
        problems.push(format!("state-checks:status datagrams address {checks:x?}, group order is {want_addrs:x?}"));
    }
    // what each device reported = what its status read brought back; for devices that serviced it
    // that is the register value the device held (cross-checked), for a deaf one nothing (0)
    let truth_states: Vec<u8> = truth.iter().enumerate().map(|(i, t)| if deaf == Some(i) { 0 } else { (*t & 0x0f) as u8 }).collect();
    if status_answers.len() == truth_states.len() && status_answers != truth_states {
        sh.inconclusive = Some(format!("harness: status answers on the wire {status_answers:?} differ from the device registers {truth_states:?} (case {case})"));
    }
    if deaf.is_some() {
        sh.count("cycles_with_a_silent_subdevice");
    }
    if states != truth_states {
        problems.push(format!("state-list:{states:?} vs devices {truth_states:?}"));
    }
    // frame bound
    let per_frame_checks = (cap / 14).min(129).max(1);
    let bound = if image == 0 { 0 } else { image.div_ceil(cap.saturating_sub(12 + dc_bytes).max(1)) } + n.div_ceil(per_frame_checks) + if variant > 0 && dc_ref.is_some() { 1 } else { 0 };
    if nframes > bound {
        problems.push(format!("too-many-frames:{nframes} frames, bound {bound}"));
    }
    let mut seen = std::collections::BTreeSet::new();
    for p in problems {
        let kind = p.split(':').next().unwrap().to_string();
        if seen.insert(kind.clone()) {
            sh.violation(&format!("C07:{kind}:{}", ["tx_rx", "tx_rx_sync_system_time", "tx_rx_dc"][variant as usize]), p, scenario.clone());
        }
    }
    if sh.wants_sample() && nframes >= 2 {
        sh.sample(json!({"scenario": scenario, "frames": nframes, "lrw": lrw.iter().map(|l| (l.0, l.1.len())).collect::<Vec<_>>(), "status_checks": checks.len(), "wkc": wkc}));
    }
}
