//! C08 — process data of one SubDevice reaches that SubDevice and nothing else.
//!
//! Functional oracle at the place the bad state becomes observable: after the real
//! init + into_safe_op/into_op on simulated devices with random PDO sets, distinct patterns are
//! written to every device's outputs / input memory, one cycle is run, and the simulated process
//! RAM and the group images are compared.

use ethercrab::error::Error;
use ethercrab::{MainDevice, SubDeviceGroup, SubDeviceGroupHandle};
use serde_json::json;
use vh::prng::{Rng, fnv, fnv_mix};
use vh::shard::{Args, Shard, hex};
use vh::sim::desc::*;
use vh::sim::device::*;
use vh::sim::{Net, Sim};
use vh::simrun::*;

const MAXD: usize = 16;

struct Groups<const P: usize> {
    g: [SubDeviceGroup<MAXD, P>; 3],
}

impl<const P: usize> Default for Groups<P> {
    fn default() -> Self {
        Groups { g: [Default::default(), Default::default(), Default::default()] }
    }
}

static OS_A: [(u16, u16); 1] = [(0x1a00, 2)];
static OS_B: [(u16, u16); 2] = [(0x1a01, 4), (0x1600, 3)];

fn main() {
    let args = Args::parse();
    let mut sh = Shard::new("C08", &args);
    std::panic::set_hook(Box::new(|_| {}));
    let n = args.cases(320, 32_000);
    for i in 0..n {
        let case = args.case_id(i);
        if let Some(only) = args.only_case {
            if only != case {
                continue;
            }
        }
        let mut rng = args.rng().fork(case ^ 0xC08);
        match rng.below(4) {
            0 => run_case::<32>(&mut sh, case, &mut rng),
            1 => run_case::<128>(&mut sh, case, &mut rng),
            _ => run_case::<1024>(&mut sh, case, &mut rng),
        }
    }
    sh.finish();
}

#[derive(Debug)]
struct DevObs {
    dev: usize,
    group: usize,
    in_off: usize,
    in_len: usize,
    out_off: usize,
    out_len: usize,
}

fn run_case<const P: usize>(sh: &mut Shard, case: u64, rng: &mut Rng) {
    let n = 1 + rng.usize_below(if P == 32 { 3 } else { MAXD });
    let k = 1 + rng.usize_below(3);
    let coe_all = rng.chance(1, 3);
    let oversampling: Option<&'static [(u16, u16)]> = match rng.below(5) {
        0 => Some(&OS_A),
        1 => Some(&OS_B),
        _ => None,
    };
    let descs: Vec<DeviceDesc> = (0..n)
        .map(|_| {
            let coe = coe_all || rng.chance(1, 4);
            let o = PdOpts { coe, max_pdos: *rng.pick(&[0usize, 2, 4, 8]), max_sms_per_dir: *rng.pick(&[1usize, 1, 1, 2, 2, 3]), contiguous: rng.bool(), fmmu_ex: rng.chance(1, 3) };
            let mut d = if oversampling.is_none() && rng.chance(1, 8) { gen_pd_desc_three_sm(rng, coe, o.fmmu_ex) } else { gen_pd_desc(rng, &o) };
            if let Some(os) = oversampling {
                d.oversampling = os.to_vec();
                // re-place the buffers for the new lengths
                let mut ram = d.sms.iter().filter(|s| s.usage >= 3).map(|s| s.start).min().unwrap_or(0x1200);
                for i in 0..d.sms.len() {
                    if d.sms[i].usage >= 3 {
                        let len = d.sm_pd_bytes(i as u8);
                        d.sms[i].start = ram;
                        d.sms[i].len = len;
                        ram += len + 16;
                    }
                }
            }
            d
        })
        .collect();
    let mut net = Net::chain(descs.clone());
    for d in net.devs.iter_mut() {
        d.desc.ram_bytes = 0x8000;
    }
    let seed = rng.u64();
    let to_op = rng.bool();
    let tags: Vec<String> = descs
        .iter()
        .map(|d| {
            let multi = [3u8, 4].iter().any(|u| d.sms.iter().filter(|s| s.usage == *u && d.sm_pd_bytes(d.sms.iter().position(|x| std::ptr::eq(x, *s)).unwrap() as u8) > 0).count() > 1);
            format!("{}{}{}", if d.coe_pdo { "coe" } else { "eeprom" }, if multi { "+multi-sm" } else { "" }, if d.fmmu_ex.is_empty() { "" } else { "+fmmu_ex" })
        })
        .collect();
    for d in descs.iter() {
        let pd: Vec<(usize, &SmDesc)> = d.sms.iter().enumerate().filter(|(i, s)| s.usage >= 3 && d.sm_pd_bytes(*i as u8) > 0).collect();
        for u in [3u8, 4] {
            let same: Vec<&(usize, &SmDesc)> = pd.iter().filter(|(_, s)| s.usage == u).collect();
            if same.len() >= 3 {
                sh.count("device.three-sms-one-direction");
            }
            if same.windows(2).any(|w| w[1].1.start < w[0].1.start) {
                sh.count("device.sm-buffers-not-in-index-order");
            }
        }
        if sm_adjacent_to_non_neighbour(d) {
            sh.count("device.sm-adjacent-to-non-neighbour");
        }
        if d.sii_untyped_sms {
            sh.count("device.sii-sync-manager-types-unknown");
        }
    }
    let exp_in: Vec<usize> = descs.iter().map(|d| d.input_bytes()).collect();
    let exp_out: Vec<usize> = descs.iter().map(|d| d.output_bytes()).collect();
    let scenario = json!({"case": case, "devices": n, "groups": k, "max_pdi": P, "kinds": tags, "inputs": exp_in, "outputs": exp_out, "oversampling": format!("{oversampling:?}"), "op": to_op});
    let pat_seed = rng.u64();

    let res = std::panic::catch_unwind(std::panic::AssertUnwindSafe(|| {
        with_sim(net, seed, &MdCfg { dc_static_sync_iterations: 0, ..Default::default() }, |md: &MainDevice, sim: &mut Sim| {
            let mut counter = 0usize;
            let mut groups = match sim.run(md.init::<MAXD, _>(|| 0, Groups::<P>::default(), |g: &Groups<P>, _sd| {
                let i = counter % k;
                counter += 1;
                Ok(&g.g[i] as &dyn SubDeviceGroupHandle)
            })) {
                Ok(Ok(g)) => g,
                other => return Err(format!("init: {:?}", other.map(|r| r.map(|_| ())))),
            };
            if let Some(os) = oversampling {
                for g in groups.g.iter_mut() {
                    for mut sd in g.iter_mut(md) {
                        sd.set_oversampling(os);
                    }
                }
            }
            let [g0, g1, g2] = groups.g;
            let mut out: Vec<Result<(Vec<DevObs>, Vec<String>), Error>> = vec![];
            let mut live = vec![];
            for (gi, g) in [g0, g1, g2].into_iter().enumerate() {
                let members: Vec<usize> = (0..n).filter(|i| i % k == gi).collect();
                if gi >= k {
                    continue;
                }
                let r = if to_op { sim.run(g.into_op(md)).map(|r| r.map(Either::Op)) } else { sim.run(g.into_safe_op(md)).map(|r| r.map(Either::Safe)) };
                match r {
                    Ok(Ok(g)) => live.push((gi, members, g)),
                    Ok(Err(e)) => out.push(Err(e)),
                    Err(s) => return Err(format!("transition: {s:?}")),
                }
            }
            // ---- observe windows
            let mut problems: Vec<String> = vec![];
            let mut all_obs = vec![];
            for (gi, members, g) in &live {
                let mut obs = vec![];
                let mut ptrs = vec![];
                for (pos, dev) in members.iter().enumerate() {
                    let (ip, il, op, ol) = g.window(md, pos);
                    ptrs.push((ip, il, op, ol, *dev));
                }
                let base = ptrs.iter().flat_map(|p| [if p.1 > 0 { Some(p.0) } else { None }, if p.3 > 0 { Some(p.2) } else { None }]).flatten().min().unwrap_or(0);
                for (ip, il, op, ol, dev) in ptrs {
                    obs.push(DevObs { dev, group: *gi, in_off: ip.wrapping_sub(base), in_len: il, out_off: op.wrapping_sub(base), out_len: ol });
                }
                all_obs.push(obs);
            }
            // ---- functional: outputs
            let mut prng = Rng::new(pat_seed);
            let ram_before: Vec<Vec<u8>> = sim.net.devs.iter().map(|d| d.mem[0x1000..].to_vec()).collect();
            let mut out_pat: Vec<Vec<u8>> = vec![vec![]; n];
            for (_gi, members, g) in &live {
                for (pos, dev) in members.iter().enumerate() {
                    let l = g.out_len(md, pos);
                    let mut p = prng.bytes(l);
                    for b in p.iter_mut() {
                        *b |= 1;
                    }
                    g.write_outputs(md, pos, &p);
                    out_pat[*dev] = p;
                }
            }
            for (_gi, _m, g) in &live {
                match g.cycle(sim, md) {
                    Ok(Ok(())) => {}
                    other => problems.push(format!("cycle-failed:{other:?}")),
                }
            }
            let live_devs: Vec<usize> = live.iter().flat_map(|(_, m, _)| m.clone()).collect();
            for dev in 0..n {
                let d = &sim.net.devs[dev];
                let mut expect = ram_before[dev].clone();
                if live_devs.contains(&dev) {
                    // outputs land in the output SMs in SM index order
                    let mut off = 0;
                    for (i, smd) in d.desc.sms.iter().enumerate() {
                        if smd.usage == 3 {
                            let l = d.desc.sm_pd_bytes(i as u8) as usize;
                            let a = smd.start as usize - 0x1000;
                            if off + l <= out_pat[dev].len() {
                                expect[a..a + l].copy_from_slice(&out_pat[dev][off..off + l]);
                            }
                            off += l;
                        }
                    }
                }
                let got = &d.mem[0x1000..];
                if got != &expect[..] {
                    let first = (0..got.len()).find(|i| got[*i] != expect[*i]).unwrap();
                    let in_out_sm = d.desc.sms.iter().any(|s| s.usage == 3 && (s.start as usize..s.start as usize + s.len as usize).contains(&(first + 0x1000)));
                    problems.push(format!("{}:device {dev} RAM {:#06x} holds {:#04x}, expected {:#04x}; outputs written {}", if in_out_sm { "outputs-wrong-in-device" } else { "outputs-leaked-elsewhere" }, first + 0x1000, got[first], expect[first], hex(&out_pat[dev])));
                }
            }
            // ---- functional: inputs
            let mut in_pat: Vec<Vec<u8>> = vec![vec![]; n];
            for dev in 0..n {
                let d = &mut sim.net.devs[dev];
                let sms = d.desc.sms.clone();
                for (i, smd) in sms.iter().enumerate() {
                    if smd.usage == 4 {
                        let l = d.desc.sm_pd_bytes(i as u8) as usize;
                        let mut p = prng.bytes(l);
                        for b in p.iter_mut() {
                            *b |= 2;
                        }
                        let a = smd.start as usize;
                        d.mem[a..a + l].copy_from_slice(&p);
                        in_pat[dev].extend(p);
                    }
                }
            }
            for (_gi, _m, g) in &live {
                match g.cycle(sim, md) {
                    Ok(Ok(())) => {}
                    other => problems.push(format!("cycle-failed:{other:?}")),
                }
            }
            for (_gi, members, g) in &live {
                for (pos, dev) in members.iter().enumerate() {
                    let got = g.read_inputs(md, pos);
                    if got != in_pat[*dev] {
                        problems.push(format!("inputs-wrong:device {dev} inputs show {} but its input memory holds {}", hex(&got), hex(&in_pat[*dev])));
                    }
                    let o = g.read_outputs(md, pos);
                    if o != out_pat[*dev] {
                        problems.push(format!("outputs-changed-by-cycle:device {dev} outputs show {} after the cycle, application wrote {}", hex(&o), hex(&out_pat[*dev])));
                    }
                }
            }
            // ---- FMMU logical ranges per group must be disjoint
            let mut ranges: Vec<(usize, u64, u64)> = vec![];
            for (gi, members, _g) in &live {
                for dev in members {
                    for fi in 0..16 {
                        let f = sim.net.devs[*dev].fmmu(fi);
                        if f.enabled && f.len > 0 {
                            ranges.push((*gi, f.lstart as u64, f.lstart as u64 + f.len as u64));
                        }
                    }
                }
            }
            for a in &ranges {
                for b in &ranges {
                    if a.0 != b.0 && a.1 < b.2 && b.1 < a.2 {
                        problems.push(format!("groups-overlap:logical ranges of groups {} and {} overlap: {:#x}..{:#x} vs {:#x}..{:#x}", a.0, b.0, a.1, a.2, b.1, b.2));
                    }
                }
            }
            let errs: Vec<String> = out.iter().filter_map(|r| r.as_ref().err().map(|e| format!("{e:?}"))).collect();
            Ok((all_obs, problems, errs, sim.net.malformed.clone()))
        })
    }));
    let nontrivial = n >= 2 || exp_in.iter().chain(exp_out.iter()).any(|l| *l > 0);
    sh.case(if nontrivial { Some(fnv_mix(fnv(scenario.to_string().as_bytes()), case)) } else { None });
    for t in &tags {
        sh.count(&format!("device.{t}"));
    }
    sh.count(&format!("max_pdi.{P}"));
    let (all_obs, mut problems, errs, malformed) = match res {
        Err(p) => {
            let msg = p.downcast_ref::<String>().cloned().or_else(|| p.downcast_ref::<&str>().map(|s| s.to_string())).unwrap_or_default();
            sh.violation("C08:panic", msg, scenario);
            return;
        }
        Ok(Err(e)) => {
            sh.violation(&format!("C08:setup-failed:{}", e.split(|c: char| c == '(' || c == ' ').nth(1).unwrap_or("")), e, scenario);
            return;
        }
        Ok(Ok(v)) => v,
    };
    if !malformed.is_empty() {
        sh.violation("C04:malformed-frame-on-wire", malformed.join("; "), scenario.clone());
    }
    // group transitions that failed: only legitimate as PdiTooLong when the layout does not fit
    for (gi, e) in errs.iter().enumerate() {
        let _ = gi;
        if e.starts_with("PdiTooLong") {
            sh.count("pdi_too_long_rejected");
        } else {
            problems.push(format!("transition-failed:{e}"));
        }
    }
    // which groups should have been too long?
    for gi in 0..k {
        let need: usize = (0..n).filter(|i| i % k == gi).map(|i| exp_in[i] + exp_out[i]).sum();
        let live = all_obs.iter().any(|o| o.first().is_some_and(|d| d.group == gi));
        let has_members = (0..n).any(|i| i % k == gi);
        let need_in: usize = (0..n).filter(|i| i % k == gi).map(|i| exp_in[i]).sum();
        if need > P && need_in <= P {
            sh.count("group.does-not-fit-only-once-outputs-are-counted");
        }
        if need > P && live {
            problems.push(format!("oversize-layout-accepted:group {gi} needs {need} bytes, capacity {P}"));
        }
        if need <= P && !live && has_members && !errs.is_empty() && errs.iter().all(|e| e.starts_with("PdiTooLong")) {
            problems.push(format!("fitting-layout-rejected:group {gi} needs {need} bytes, capacity {P}"));
        }
    }
    // A group that was (rightly) refused leaves its devices' FMMUs programmed; what the other
    // groups see after the caller ignores that error is not judged.
    if !errs.is_empty() {
        sh.count("cases_with_refused_group");
        problems.retain(|p| !(p.starts_with("outputs") || p.starts_with("inputs-wrong") || p.starts_with("groups-overlap") || p.starts_with("cycle-failed")));
    }
    // windows
    for obs in &all_obs {
        sh.count("groups_checked");
        let mut wins: Vec<(usize, usize, bool, usize)> = vec![];
        for o in obs {
            if o.in_len != exp_in[o.dev] {
                problems.push(format!("window-length:device {} ({}) inputs window {} bytes, PDOs need {}", o.dev, tags[o.dev], o.in_len, exp_in[o.dev]));
            }
            if o.out_len != exp_out[o.dev] {
                problems.push(format!("window-length:device {} ({}) outputs window {} bytes, PDOs need {}", o.dev, tags[o.dev], o.out_len, exp_out[o.dev]));
            }
            if o.in_len > 0 {
                wins.push((o.in_off, o.in_len, true, o.dev));
            }
            if o.out_len > 0 {
                wins.push((o.out_off, o.out_len, false, o.dev));
            }
        }
        sh.add("windows", wins.len() as u64);
        wins.sort();
        for w in wins.windows(2) {
            if w[0].0 + w[0].1 > w[1].0 {
                problems.push(format!("windows-overlap:device {} and device {}", w[0].3, w[1].3));
            }
        }
        let last_in = wins.iter().filter(|w| w.2).map(|w| w.0 + w.1).max();
        let first_out = wins.iter().filter(|w| !w.2).map(|w| w.0).min();
        if let (Some(i), Some(o)) = (last_in, first_out) {
            if i > o {
                problems.push("inputs-not-before-outputs:".into());
            }
        }
        let span = wins.last().map_or(0, |w| w.0 + w.1);
        if span > P {
            problems.push(format!("window-outside-image:span {span} > {P}"));
        }
    }
    let mut seen = std::collections::BTreeSet::new();
    for p in problems {
        let kind = p.split(':').next().unwrap().to_string();
        // keep signatures precise about which configuration path failed
        let path = if kind.contains("outputs") || kind.contains("inputs-wrong") || kind.contains("window-length") {
            let dev: Option<usize> = p.split("device ").nth(1).and_then(|s| s.split(|c: char| !c.is_ascii_digit()).next()).and_then(|s| s.parse().ok());
            dev.map(|d| format!(":{}", tags[d])).unwrap_or_default()
        } else {
            String::new()
        };
        let sig = format!("C08:{kind}{path}");
        if seen.insert(sig.clone()) {
            sh.violation(&sig, p, scenario.clone());
        }
    }
    if sh.wants_sample() && n > 2 {
        sh.sample(scenario);
    }
}

/// A group in SAFE-OP or OP (same operations on both).
enum Either<const P: usize> {
    Safe(SubDeviceGroup<MAXD, P, ethercrab::DefaultLock, ethercrab::subdevice_group::SafeOp>),
    Op(SubDeviceGroup<MAXD, P, ethercrab::DefaultLock, ethercrab::subdevice_group::Op>),
}

macro_rules! both {
    ($s:expr, $g:ident => $e:expr) => {
        match $s {
            Either::Safe($g) => $e,
            Either::Op($g) => $e,
        }
    };
}

impl<const P: usize> Either<P> {
    fn window<'a>(&self, md: &'a MainDevice<'a>, pos: usize) -> (usize, usize, usize, usize) {
        both!(self, g => {
            let sd = g.subdevice(md, pos).unwrap();
            let io = sd.io_raw();
            (io.inputs().as_ptr() as usize, io.inputs().len(), io.outputs().as_ptr() as usize, io.outputs().len())
        })
    }
    fn out_len<'a>(&self, md: &'a MainDevice<'a>, pos: usize) -> usize {
        both!(self, g => g.subdevice(md, pos).unwrap().io_raw().outputs().len())
    }
    fn write_outputs<'a>(&self, md: &'a MainDevice<'a>, pos: usize, data: &[u8]) {
        both!(self, g => {
            let sd = g.subdevice(md, pos).unwrap();
            let mut io = sd.io_raw_mut();
            io.outputs().copy_from_slice(data);
        })
    }
    fn read_inputs<'a>(&self, md: &'a MainDevice<'a>, pos: usize) -> Vec<u8> {
        both!(self, g => g.subdevice(md, pos).unwrap().inputs_raw().to_vec())
    }
    fn read_outputs<'a>(&self, md: &'a MainDevice<'a>, pos: usize) -> Vec<u8> {
        both!(self, g => g.subdevice(md, pos).unwrap().outputs_raw().to_vec())
    }
    fn cycle<'a>(&self, sim: &mut Sim<'a>, md: &'a MainDevice<'a>) -> Result<Result<(), String>, vh::sim::Stop> {
        both!(self, g => sim.run(g.tx_rx(md)).map(|r| r.map(|_| ()).map_err(|e| format!("{e:?}"))))
    }
}

#[allow(unused)]
fn unused(_: u8) {
    let _ = AL_OP;
}
