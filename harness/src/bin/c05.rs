//! C05 — the receive path survives any bytes and rejects strangers without side effects.
//!
//! Monitor M-rx: all slots are snapshotted (state, first index, whole buffer) before and after
//! every `PduRx::receive_frame` call; the oracle is evaluated on the pair plus the return value.

use ethercrab::verif as ev;
use ethercrab::{PduStorage, ReceiveAction};
use serde_json::json;
use std::panic::{AssertUnwindSafe, catch_unwind};
use std::time::Duration;
use vh::pl::{self, *};
use vh::prng::{Rng, fnv, fnv_mix};
use vh::shard::{Args, Shard, hex};
use vh::wire::{self, Dgram};

const DATA: usize = 160;

#[derive(Copy, Clone, Debug, PartialEq, Eq)]
enum Target {
    NoneFresh,
    NoneStaleUnsent,
    NoneStaleSent,
    CreatedEmpty,
    Created,
    Sendable,
    Sending,
    Sent,
    RxDone,
    RxProc,
}

const TARGETS: [Target; 10] = [
    Target::NoneFresh,
    Target::NoneStaleUnsent,
    Target::NoneStaleSent,
    Target::CreatedEmpty,
    Target::Created,
    Target::Sendable,
    Target::Sending,
    Target::Sent,
    Target::RxDone,
    Target::RxProc,
];

fn main() {
    let args = Args::parse();
    let mut sh = Shard::new("C05", &args);
    std::panic::set_hook(Box::new(|_| {}));
    let n = args.cases(4_000, 400_000);
    for i in 0..n {
        let case = args.case_id(i);
        if let Some(only) = args.only_case {
            if only != case {
                continue;
            }
        }
        let mut rng = args.rng().fork(case);
        match case % 3 {
            0 => run_case::<1>(&mut rng, &mut sh, case),
            1 => run_case::<2>(&mut rng, &mut sh, case),
            _ => run_case::<4>(&mut rng, &mut sh, case),
        }
    }
    sh.finish();
}

fn run_case<const N: usize>(rng: &mut Rng, sh: &mut Shard, case: u64) {
    let storage = PduStorage::<N, DATA>::new();
    let flen = match rng.below(6) {
        0 => 28,
        1 => DATA,
        2 => 29 + rng.usize_below(4),
        _ => 28 + rng.usize_below(DATA - 28 + 1),
    };
    let (mut tx, mut rx, pl) = storage.verif_try_split_with_len(flen).expect("split");
    let cap = flen - 28; // max payload of a single datagram

    let targets: Vec<Target> = (0..N).map(|_| *rng.pick(&TARGETS)).collect();

    // Held objects so the slots stay in their target state.
    let mut created = vec![];
    let mut futs = vec![];
    let mut sending = vec![];
    let mut received = vec![];
    // Genuine (unmodified) responses for slots that are Sent.
    let mut genuine: Vec<(usize, Vec<u8>)> = vec![];
    let (_wc, waker) = count_waker();

    // Phase 1: allocate every slot in order.
    let mut staged: Vec<Option<(ev::CreatedFrame, ev::PduResponseHandle)>> = vec![];
    for t in &targets {
        let mut f = ev::alloc_frame(&pl).expect("alloc");
        match t {
            Target::NoneFresh => {
                drop(f);
                staged.push(None);
            }
            Target::CreatedEmpty => {
                created.push(f);
                staged.push(None);
            }
            _ => {
                let kind = rng.usize_below(NUM_CMD_KINDS);
                let len = rng.usize_below(cap + 1);
                let data = rng.bytes(len);
                let h = f
                    .push_pdu(make_command(kind, rng.u16(), rng.u16()), &data[..], None)
                    .expect("push fits");
                // Sometimes a second datagram when there is room.
                if cap >= len + 12 + 2 && rng.chance(1, 3) {
                    let l2 = rng.usize_below(cap - len - 12 + 1);
                    let d2 = rng.bytes(l2);
                    let _ = f.push_pdu(make_command(rng.usize_below(NUM_CMD_KINDS), rng.u16(), rng.u16()), &d2[..], None);
                }
                staged.push(Some((f, h)));
            }
        }
    }

    // Phase 2: everything that needs to pass through TX, one at a time.
    for (i, t) in targets.iter().enumerate() {
        match t {
            Target::Sending | Target::Sent | Target::RxDone | Target::RxProc | Target::NoneStaleSent => {
                let (f, h) = staged[i].take().unwrap();
                let mut fut = Box::pin(ev::mark_sendable(f, &pl, Duration::from_secs(3600), 0));
                let sf = tx.next_sendable_frame().expect("sendable");
                if *t == Target::Sending {
                    sending.push(sf);
                    futs.push((fut, h));
                    continue;
                }
                let mut bytes = vec![];
                sf.send_blocking(|b| {
                    bytes = b.to_vec();
                    Ok(b.len())
                })
                .expect("send");
                let resp = respond(&bytes, |_, d: &mut Dgram| {
                    d.wkc = 1;
                    for x in d.data.iter_mut() {
                        *x ^= 0x5a;
                    }
                });
                match t {
                    Target::Sent => {
                        genuine.push((i, resp));
                        futs.push((fut, h));
                    }
                    Target::NoneStaleSent => drop(fut),
                    Target::RxDone => {
                        assert_eq!(rx.receive_frame(&resp), Ok(ReceiveAction::Processed));
                        genuine.push((i, resp));
                        futs.push((fut, h));
                    }
                    Target::RxProc => {
                        assert_eq!(rx.receive_frame(&resp), Ok(ReceiveAction::Processed));
                        match poll_once(&mut fut, &waker) {
                            std::task::Poll::Ready(Ok(rf)) => received.push(rf),
                            _ => panic!("harness: expected ready frame"),
                        }
                        genuine.push((i, resp));
                    }
                    _ => unreachable!(),
                }
            }
            _ => {}
        }
    }
    // Phase 3: the rest.
    for (i, t) in targets.iter().enumerate() {
        match t {
            Target::Created => {
                let (f, _h) = staged[i].take().unwrap();
                created.push(f);
            }
            Target::Sendable | Target::NoneStaleUnsent => {
                let (f, h) = staged[i].take().unwrap();
                let mut fut = Box::pin(ev::mark_sendable(f, &pl, Duration::from_secs(3600), 0));
                if rng.bool() {
                    let _ = poll_once(&mut fut, &waker);
                }
                if *t == Target::Sendable {
                    futs.push((fut, h));
                } else {
                    drop(fut);
                }
            }
            _ => {}
        }
    }

    let sv = states(&pl);
    sh.count(&format!("slots.{N}"));
    for s in &sv {
        sh.count(&format!("prefix_state.{}", state_name(*s)));
    }
    let sv_hash = fnv(&sv);

    // Inputs.
    let inputs = 24;
    for k in 0..inputs {
        let before = snap(&pl);
        let (kind, fieldval, bytes) = make_input(rng, &before, &genuine, flen, k);
        let res = catch_unwind(AssertUnwindSafe(|| rx.receive_frame(&bytes)));
        let after = snap(&pl);
        sh.count(&format!("input.{kind}"));
        let h = fnv_mix(fnv_mix(fnv_mix(sv_hash, fnv(kind.as_bytes())), fieldval), N as u64);
        let is_genuine = kind == "genuine";
        sh.case(if is_genuine { None } else { Some(h) });

        let replay = json!({"case": case, "input": k, "kind": kind, "states": sv.iter().map(|s| state_name(*s)).collect::<Vec<_>>(), "frame_len": flen, "bytes": hex(&bytes)});
        if sh.wants_sample() && k == inputs - 1 {
            sh.sample(json!({"slots": N, "states_before": before.iter().map(|s| state_name(s.state)).collect::<Vec<_>>(), "input_kind": kind, "input": hex(&bytes), "result": format!("{:?}", res.as_ref().ok())}));
        }

        let res = match res {
            Err(_) => {
                sh.violation(&format!("C05:panic:{kind}"), format!("receive_frame panicked on {}", hex(&bytes)), replay);
                // The PduRx may be in any state now; abandon this case.
                std::mem::forget(created);
                std::mem::forget(futs);
                std::mem::forget(sending);
                std::mem::forget(received);
                return;
            }
            Ok(r) => r,
        };
        let rs = match &res {
            Ok(ReceiveAction::Processed) => "Processed".to_string(),
            Ok(ReceiveAction::Ignored) => "Ignored".to_string(),
            Err(e) => format!("Err({})", variant(e)),
        };
        sh.count(&format!("result.{rs}"));

        // Independent reading of the input.
        let is_ecat = bytes.len() >= 14 && u16::from_be_bytes([bytes[12], bytes[13]]) == wire::ETHERTYPE_ECAT;
        let from_self = bytes.len() >= 14 && bytes[6..12] == wire::MAC_MAIN;
        let first_idx = bytes.get(17).copied();
        let changed: Vec<usize> = (0..N).filter(|i| before[*i] != after[*i]).collect();
        let describe = |i: usize| {
            let (b, a) = (&before[i], &after[i]);
            let mut parts = vec![];
            if b.state != a.state {
                parts.push(format!("state:{}->{}", state_name(b.state), state_name(a.state)));
            }
            if b.first_pdu != a.first_pdu {
                parts.push("first-index".to_string());
            }
            if b.bytes != a.bytes {
                parts.push("buffer".to_string());
            }
            if b.payload_len != a.payload_len {
                parts.push("payload-len".to_string());
            }
            parts.join("+")
        };

        if bytes.len() >= 14 && (!is_ecat || from_self) && res != Ok(ReceiveAction::Ignored) {
            sh.violation(&format!("C05:stranger-not-ignored:{kind}:{rs}"), format!("non-EtherCAT/own frame returned {rs}"), replay.clone());
        }
        let awaiting: Vec<usize> = match first_idx {
            Some(idx) if is_ecat && !from_self => (0..N).filter(|i| before[*i].state == ST_SENT && before[*i].first_pdu == idx as u16).collect(),
            _ => vec![],
        };
        if res == Ok(ReceiveAction::Processed) {
            sh.count("accepted");
            if awaiting.is_empty() {
                sh.violation(&format!("C05:accepted-without-awaiting-request:{kind}"), format!("Processed but no Sent slot has first index {first_idx:?}"), replay.clone());
            }
            if changed.len() != 1 || !awaiting.contains(&changed[0]) {
                sh.violation(
                    &format!("C05:accept-changed-wrong-slots:{kind}"),
                    format!("changed slots {changed:?} ({}) awaiting {awaiting:?}", changed.iter().map(|i| describe(*i)).collect::<Vec<_>>().join(";")),
                    replay.clone(),
                );
            } else {
                let i = changed[0];
                let (b, a) = (&before[i], &after[i]);
                let el = (u16::from_le_bytes([bytes[14], bytes[15]]) & 0x7ff) as usize;
                let ok = a.state == ST_RXDONE
                    // the index marker either stays or is withdrawn (an answered slot no longer awaits)
                    && (a.first_pdu == b.first_pdu || a.first_pdu == 0xff00)
                    && a.payload_len == b.payload_len
                    && a.bytes[..16] == b.bytes[..16]
                    && 16 + el <= a.bytes.len()
                    && a.bytes[16..16 + el] == bytes[16..16 + el]
                    && a.bytes[16 + el..] == b.bytes[16 + el..];
                if !ok {
                    sh.violation(&format!("C05:accept-wrong-effect:{kind}"), format!("slot {i}: {}", describe(i)), replay.clone());
                }
            }
        } else if !changed.is_empty() {
            let d = changed.iter().map(|i| describe(*i)).collect::<Vec<_>>().join(";");
            sh.violation(&format!("C05:rejected-frame-altered-slot:{d}:{rs}"), format!("result {rs} but slots {changed:?} changed: {d}; input kind {kind}"), replay.clone());
            // State is now outside what the prefix script intended; stop this case (held handles
            // may panic on drop if a slot is stuck).
            std::mem::forget(created);
            std::mem::forget(futs);
            std::mem::forget(sending);
            std::mem::forget(received);
            return;
        }
        // Keep `genuine` in sync: a processed slot no longer awaits.
    }

    // Tear-down must not panic either (it is ordinary API use).
    let r = catch_unwind(AssertUnwindSafe(move || {
        drop(created);
        drop(sending);
        drop(received);
        drop(futs);
    }));
    if r.is_err() {
        sh.violation("C05:panic:teardown", "dropping handles after the inputs panicked".into(), json!({"case": case}));
    }
    let _ = pl::states(&pl);
}

fn variant(e: &ethercrab::error::Error) -> String {
    let s = format!("{e:?}");
    s.split(|c: char| c == ' ' || c == '{').next().unwrap_or("").to_string()
}

/// Produce one hostile input. Returns (class, field value for distinctness, bytes).
fn make_input(rng: &mut Rng, slots: &[SlotSnap], genuine: &[(usize, Vec<u8>)], flen: usize, k: usize) -> (&'static str, u64, Vec<u8>) {
    // Base: a genuine response to a Sent slot, a synthesized response to any slot with an index,
    // or a synthesized frame with a random index.
    let sent: Vec<&(usize, Vec<u8>)> = genuine.iter().filter(|(i, _)| slots[*i].state == ST_SENT).collect();
    let indexed: Vec<usize> = (0..slots.len()).filter(|i| slots[*i].first_pdu != 0xff00).collect();

    let synth = |rng: &mut Rng, idx: u8, dlen: usize| -> Vec<u8> {
        let d = Dgram { cmd: rng.below(15) as u8, idx, addr: rng.u32(), len: dlen as u16, reserved: 0, circulating: false, more: false, irq: 0, data: rng.bytes(dlen), wkc: rng.u16() };
        let mut f = wire::main_frame(vec![d]);
        f.src = wire::MAC_RETURNED;
        wire::encode_frame(&f)
    };

    let class = if (k == 23 || rng.chance(1, 40)) && !sent.is_empty() { 100 } else { rng.below(17) };
    let base: Vec<u8> = if !sent.is_empty() && rng.chance(2, 3) || class == 100 && !sent.is_empty() {
        sent[rng.usize_below(sent.len())].1.clone()
    } else if !indexed.is_empty() && rng.chance(2, 3) {
        let s = &slots[*rng.pick(&indexed)];
        let dl = rng.usize_below(flen.saturating_sub(28) + 1);
        synth(rng, s.first_pdu as u8, dl)
    } else {
        let (i, dl) = (rng.u8(), rng.usize_below(flen.saturating_sub(28) + 1));
        synth(rng, i, dl)
    };
    let mut b = base.clone();
    match class {
        100 => ("genuine", 0, b),
        0 => {
            // truncation at any byte
            let cut = rng.usize_below(b.len() + 1);
            b.truncate(cut);
            ("truncate", cut as u64, b)
        }
        1 => {
            // EtherCAT length field sweep 0..2047
            let v = rng.below(2048) as u16;
            let hw = (u16::from_le_bytes([b[14], b[15]]) & !0x7ff) | v;
            b[14..16].copy_from_slice(&hw.to_le_bytes());
            ("ecat-len", v as u64, b)
        }
        2 => {
            let v = rng.u8();
            b[17] = v;
            ("index", v as u64, b)
        }
        3 => {
            let v = rng.below(16) as u8;
            b[15] = (b[15] & 0x0f) | (v << 4);
            ("ecat-type", v as u64, b)
        }
        4 => {
            let v = *rng.pick(&[0x0800u16, 0x88A5, 0xA488, 0x0000, 0xffff, 0x8100]);
            b[12..14].copy_from_slice(&v.to_be_bytes());
            ("ethertype", v as u64, b)
        }
        5 => {
            b[6..12].copy_from_slice(&wire::MAC_MAIN);
            ("own-echo", 0, b)
        }
        6 => {
            let v = rng.bytes(6);
            b[0..6].copy_from_slice(&v);
            ("dst", fnv(&v), b)
        }
        7 => {
            // oversize: a matching header with more data than the slot can hold
            let idx = b[17];
            let extra = 1 + rng.usize_below(64);
            let dlen = flen - 28 + extra;
            ("oversize", extra as u64, synth(rng, idx, dlen))
        }
        8 => {
            // datagram length field lies
            let v = rng.below(2048) as u16;
            let lw = (u16::from_le_bytes([b[22], b[23]]) & !0x7ff) | v;
            b[22..24].copy_from_slice(&lw.to_le_bytes());
            ("dgram-len", v as u64, b)
        }
        9 => {
            let n = rng.usize_below(flen + 64);
            ("random", n as u64, rng.bytes(n))
        }
        10 => {
            // random bytes behind a valid Ethernet+EtherCAT header
            let n = rng.usize_below(flen);
            let mut v = b[..16.min(b.len())].to_vec();
            v.extend(rng.bytes(n));
            ("random-payload", n as u64, v)
        }
        11 => {
            // padding after the frame (minimum Ethernet size / trailing garbage)
            let n = 1 + rng.usize_below(80);
            b.extend(rng.bytes(n));
            ("trailing", n as u64, b)
        }
        12 => {
            let v = rng.bytes(6);
            b[6..12].copy_from_slice(&v);
            ("src", fnv(&v) & 0xff, b)
        }
        13 => {
            // flip one random bit anywhere
            let i = rng.usize_below(b.len());
            b[i] ^= 1 << rng.below(8);
            ("bitflip", i as u64, b)
        }
        14 => {
            // response addressed by index to a slot that is NOT awaiting
            let others: Vec<usize> = (0..slots.len()).filter(|i| slots[*i].state != ST_SENT && slots[*i].first_pdu != 0xff00).collect();
            if others.is_empty() {
                let v = rng.u8();
                b[17] = v;
                ("index", v as u64, b)
            } else {
                let s = &slots[*rng.pick(&others)];
                let dl = rng.usize_below(flen - 28 + 1);
                ("index-of-non-awaiting", s.state as u64, synth(rng, s.first_pdu as u8, dl))
            }
        }
        15 => ("duplicate-or-plain", 1, b),
        _ => {
            // zero-length EtherCAT payload / header only
            b.truncate(16);
            b[14] = 0;
            b[15] &= 0xf8;
            ("empty", 0, b)
        }
    }
}
