//! C14 — writing a station alias changes the alias and its checksum, nothing else; generic EEPROM
//! writes store exactly the given bytes.
//!
//! Public API (`SubDevice::set_alias_address`, `eeprom_write_dangerously`) against a simulated
//! device; the oracle diffs the simulated EEPROM array before/after and inspects the write log of
//! the SII interface (addresses, retries).

use ethercrab::error::Error;
use ethercrab::{MainDevice, SubDeviceGroup};
use serde_json::json;
use vh::prng::{Rng, fnv_mix};
use vh::shard::{Args, Shard, hex};
use vh::sim::desc::*;
use vh::sim::{Net, Sim, Stop};
use vh::simrun::*;

fn main() {
    let args = Args::parse();
    let mut sh = Shard::new("C14", &args);
    std::panic::set_hook(Box::new(|i| { if std::env::var("VH_PANICS").is_ok() { eprintln!("{i}"); } }));
    // thorough: all 65536 aliases (each shard takes its residue class)
    let n = args.cases(2_000, 65_536);
    for i in 0..n {
        let case = args.case_id(i);
        if let Some(only) = args.only_case {
            if only != case {
                continue;
            }
        }
        let mut rng = args.rng().fork(case ^ 0xC14);
        let alias = if args.thorough() { case as u16 } else { rng.edgy(0, 0xffff) as u16 };
        run_case(&mut sh, case, &mut rng, alias);
    }
    if args.thorough() {
        sh.count("all_65536_aliases_partition_run");
    }
    sh.finish();
}

macro_rules! wtypes {
    ($(($name:ident, $n:literal)),*) => {
        $(
            #[derive(ethercrab_wire::EtherCrabWireReadWrite)]
            #[wire(bytes = $n)]
            struct $name {
                #[wire(bytes = $n)]
                d: [u8; $n],
            }
        )*

        /// `eeprom_write_dangerously` of a value whose packed form is exactly `bytes`.
        macro_rules! write_n {
            ($sim:expr, $sd:expr, $md:expr, $word:expr, $bytes:expr) => {{
                let b: &[u8] = $bytes;
                match b.len() {
                    0 => $sim.run($sd.eeprom_write_dangerously($md, $word, ())),
                    $($n => { let mut a = [0u8; $n]; a.copy_from_slice(b); $sim.run($sd.eeprom_write_dangerously($md, $word, $name { d: a })) })*
                    _ => unreachable!(),
                }
            }};
        }
    };
}

wtypes!((B1, 1), (B2, 2), (B3, 3), (B4, 4), (B5, 5), (B7, 7), (B8, 8), (B15, 15), (B16, 16), (B33, 33), (B63, 63), (B64, 64));

const LENS: [usize; 13] = [0, 1, 2, 3, 4, 5, 7, 8, 15, 16, 33, 63, 64];

fn run_case(sh: &mut Shard, case: u64, rng: &mut Rng, alias: u16) {
    let mut d = gen_desc(rng, &GenOpts { max_strings: 3, max_string_len: 10, max_pdos: 2, max_entries: 2, mailbox: false, nasty_strings: false, max_sms: 2 });
    let ns = d.strings.len() as u8;
    for idx in [&mut d.group_idx, &mut d.image_idx, &mut d.order_idx, &mut d.name_idx] {
        if *idx > ns {
            *idx = ns;
        }
    }
    let mut net = Net::chain(vec![d.clone()]);
    // random initial header words (the checksum need not be valid beforehand)
    for w in 0..8 {
        if w != 4 && rng.chance(2, 3) {
            let v = rng.u16();
            net.devs[0].eeprom[w * 2..w * 2 + 2].copy_from_slice(&v.to_le_bytes());
        }
    }
    let cmd_errors = *rng.pick(&[0u32, 0, 0, 1, 3, 19, 20, 21, 25]);
    let busy_forever = rng.chance(1, 40);
    net.devs[0].sii_script.busy_polls = rng.below(3) as u32;
    let mode = rng.below(3); // 0 alias, 1 generic write, 2 alias via SubDeviceRef
    let wlen = *rng.pick(&LENS);
    let wword = match rng.below(3) {
        0 => 0x40 + rng.below(64) as u16,
        1 => (net.devs[0].eeprom.len() / 2 - wlen.div_ceil(2)) as u16,
        _ => rng.below((net.devs[0].eeprom.len() / 2 - 40) as u64) as u16,
    };
    let wword = wword.min((net.devs[0].eeprom.len() / 2 - wlen.div_ceil(2)) as u16);
    let payload = rng.bytes(wlen);
    let seed = rng.u64();
    let scenario = json!({"case": case, "mode": mode, "alias": alias, "cmd_errors": cmd_errors, "busy_forever": busy_forever, "write_word": wword, "write_len": wlen});
    sh.case(Some(fnv_mix(fnv_mix(fnv_mix(0xC14C14, case), alias as u64), mode)));
    sh.count(&format!("mode.{}", ["set_alias", "generic_write", "set_alias_ref"][mode as usize]));
    sh.count(&format!("cmd_errors.{cmd_errors}"));

    let payload2 = payload.clone();
    let res = std::panic::catch_unwind(std::panic::AssertUnwindSafe(|| {
        with_sim(net, seed, &MdCfg::default(), |md: &MainDevice, sim: &mut Sim| {
            let g: SubDeviceGroup<2, 64> = match sim.run(md.init_single_group::<2, 64>(|| 0)) {
                Ok(Ok(g)) => g,
                other => return Err(format!("init: {:?}", other.map(|r| r.map(|_| ())))),
            };
            let mut g = g;
            let before = sim.net.devs[0].eeprom.clone();
            sim.net.devs[0].sii_writes.clear();
            sim.net.devs[0].sii_write_attempts = 0;
            sim.net.devs[0].sii_script.write_cmd_errors = cmd_errors;
            sim.net.devs[0].sii_script.busy_forever = busy_forever;
            let t0 = vh::vclock::now();
            let r: Result<Result<(), Error>, Stop> = match mode {
                1 => {
                    let sd = g.subdevice(md, 0).unwrap();
                    write_n!(sim, sd, md, wword, &payload2)
                }
                _ => {
                    let mut sd = g.iter_mut(md).next().unwrap();
                    sim.run(sd.set_alias_address(alias))
                }
            };
            let elapsed = vh::vclock::now() - t0;
            let reported = g.iter(md).next().map(|s| s.alias_address());
            let after = sim.net.devs[0].eeprom.clone();
            let writes = sim.net.devs[0].sii_writes.clone();
            let attempts = sim.net.devs[0].sii_write_attempts;
            Ok((r.map(|x| x.map_err(|e| format!("{e:?}"))), before, after, writes, attempts, reported, elapsed))
        })
    }));
    let (r, before, after, writes, attempts, reported, elapsed) = match res {
        Err(p) => {
            let msg = p.downcast_ref::<String>().cloned().or_else(|| p.downcast_ref::<&str>().map(|s| s.to_string())).unwrap_or_default();
            let cls: String = msg.chars().filter(|c| !c.is_ascii_digit()).take(40).collect();
            sh.violation(&format!("C14:panic:{}:{}", if mode == 1 { "generic-write" } else { "set-alias" }, cls.trim().replace(' ', "-")), format!("{msg}; odd length: {}", wlen % 2 == 1), scenario);
            return;
        }
        Ok(Err(e)) => {
            sh.violation("C14:init-failed", e, scenario);
            return;
        }
        Ok(Ok(v)) => v,
    };
    sh.add("sii_write_attempts", attempts);
    let changed: Vec<usize> = (0..before.len() / 2).filter(|w| before[w * 2..w * 2 + 2] != after[w * 2..w * 2 + 2]).collect();
    if busy_forever {
        sh.count("device_busy_forever");
        match r {
            // an empty write needs no device access at all: nothing to wait for
            Ok(Ok(())) if mode == 1 && wlen == 0 && changed.is_empty() && attempts == 0 => sh.count("empty_write_on_busy_device_ok"),
            Ok(Err(ref e)) if e.contains("Timeout(Eeprom)") => {
                if elapsed > 100_000 {
                    sh.violation("C14:busy-device-late-timeout", format!("{elapsed} us"), scenario);
                }
            }
            Err(Stop::Stuck) | Err(Stop::Budget) => sh.violation("C14:busy-device-hangs", format!("{r:?}"), scenario),
            other => sh.violation("C14:busy-device-not-timeout", format!("{other:?}"), scenario),
        }
        return;
    }
    if mode != 1 {
        // ---- alias
        match r {
            Ok(Ok(())) => {}
            other => {
                sh.violation("C14:set-alias-failed", format!("{other:?}"), scenario);
                return;
            }
        }
        if cmd_errors > 21 {
            // the device refused more often than the bounded retry: nothing may be corrupted
            sh.count("retry_bound_exceeded");
        }
        let mut hdr = before[..14].to_vec();
        hdr[8..10].copy_from_slice(&alias.to_le_bytes());
        let crc = crc8_sii(&hdr);
        let mut problems = vec![];
        if changed.iter().any(|w| *w != 4 && *w != 7) {
            problems.push(format!("other-words-changed:{:?}", changed));
        }
        // "retrying a word while the device reports a command error": a device that refuses a few
        // times and then accepts must end up with exactly the same content (the statement fixes no
        // number for the bound, so nothing is demanded about 19..25 errors beyond the upper bound)
        if cmd_errors <= 3 {
            if cmd_errors > 0 {
                sh.count("retried_and_stored");
                if attempts != 2 + cmd_errors as u64 {
                    problems.push(format!("retry-count:{attempts} write commands for two words after {cmd_errors} command errors"));
                }
            }
            if after[8..10] != alias.to_le_bytes() {
                problems.push(format!("alias-word:holds {} want {:04x}", hex(&after[8..10]), alias));
            }
            if after[14] != crc {
                problems.push(format!("checksum:low byte of word 7 is {:#04x}, CRC-8 of the first 14 bytes after the change is {crc:#04x}", after[14]));
            }
            if reported != Some(alias) {
                problems.push(format!("reported-alias:{reported:?}"));
            }
            if after[15] != 0 {
                sh.observe("checksum_high_byte", format!("{:#04x}", after[15]));
            }
            let want_words: Vec<u16> = vec![4, 7];
            let got_words: Vec<u16> = writes.iter().map(|w| w.0).collect();
            if got_words != want_words {
                problems.push(format!("write-log:words written {got_words:?}"));
            }
        } else {
            // each word is re-issued while the device reports a command error, at most 21 times
            let per_word = attempts;
            if per_word > 2 * 21 {
                problems.push(format!("retry-bound:{attempts} write commands for two words"));
            }
            sh.max("write_commands_for_alias", attempts);
        }
        for p in problems {
            sh.violation(&format!("C14:alias:{}", p.split(':').next().unwrap()), p, scenario.clone());
        }
    } else {
        // ---- generic write
        sh.count(if wlen % 2 == 1 { "generic.odd_len" } else { "generic.even_len" });
        match r {
            Ok(Ok(())) => {}
            other => {
                sh.violation(&format!("C14:generic-write-failed:{}", if wlen % 2 == 1 { "odd-length" } else { "even-length" }), format!("{other:?}"), scenario);
                return;
            }
        }
        if cmd_errors <= 3 {
            if cmd_errors > 0 && wlen > 0 {
                sh.count("retried_and_stored");
                if attempts != wlen.div_ceil(2) as u64 + cmd_errors as u64 {
                    sh.violation("C14:generic:retry-count", format!("{attempts} write commands for {} words after {cmd_errors} command errors", wlen.div_ceil(2)), scenario.clone());
                }
            }
            let mut want = before.clone();
            let a = wword as usize * 2;
            want[a..a + wlen].copy_from_slice(&payload);
            if wlen % 2 == 1 {
                want[a + wlen] = 0;
            }
            if after != want {
                let first = (0..after.len()).find(|i| after[*i] != want[*i]).unwrap();
                sh.violation(&format!("C14:generic-write-wrong-content:{}", if wlen % 2 == 1 { "odd-length" } else { "even-length" }), format!("first difference at byte {first} (write starts at byte {a}, {wlen} bytes): holds {:#04x} want {:#04x}", after[first], want[first]), scenario.clone());
            }
            let words: Vec<u16> = writes.iter().map(|w| w.0).collect();
            let want_words: Vec<u16> = (0..wlen.div_ceil(2) as u16).map(|k| wword + k).collect();
            if words != want_words {
                sh.violation("C14:generic-write-wrong-words", format!("wrote words {words:?}, expected {want_words:?}"), scenario.clone());
            }
        } else if attempts > 21 * wlen.div_ceil(2) as u64 {
            sh.violation("C14:generic:retry-bound", format!("{attempts} write commands for {} words", wlen.div_ceil(2)), scenario.clone());
        }
    }
    if sh.wants_sample() && cmd_errors > 0 {
        sh.sample(json!({"scenario": scenario, "changed_words": changed, "write_commands": attempts}));
    }
}
