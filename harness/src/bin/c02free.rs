//! Free-running (truly parallel) variant of the PDU-loop workload for the sanitizers:
//! ThreadSanitizer (`-Zsanitizer=thread -Zbuild-std`) and Miri (data-race detector, Stacked
//! Borrows, weak-memory emulation). 1..3 application threads, a TX thread and an RX thread share
//! one `PduStorage`; no baton — the OS (or Miri's scheduler) interleaves. The cfg-gated hooks only
//! inject random `yield_now`s to widen windows. The behavioural monitors M-route and M-view stay
//! on (they are thread-local by construction: tagged requests, keyed responses).
//!
//! A sanitizer report is a violation of C02's memory/concurrency guarantee (classified by the
//! driver from the tool's output); a wrong response / changed view is reported like in c01.

use ethercrab::error::{Error, PduError};
use ethercrab::verif as ev;
use ethercrab::{PduStorage, Timeouts};
use serde_json::json;
use std::cell::Cell;
use std::future::Future;
use std::pin::Pin;
use std::sync::atomic::{AtomicBool, AtomicU64, AtomicUsize, Ordering};
use std::sync::mpsc;
use std::sync::{Arc, Mutex};
use std::task::{Context, Poll, Wake, Waker};
use std::time::Duration;
use vh::pl::*;
use vh::prng::{Rng, fnv_mix};
use vh::shard::{Args, Shard};

thread_local! {
    static YIELD_RNG: Cell<u64> = const { Cell::new(0x9E3779B97F4A7C15) };
}

static HOOK_HITS: AtomicU64 = AtomicU64::new(0);

fn yield_hook(_site: ev::Site, _addr: usize, _a: u8, _b: u8) {
    HOOK_HITS.fetch_add(1, Ordering::Relaxed);
    let r = YIELD_RNG.with(|c| {
        let mut x = c.get();
        x ^= x << 13;
        x ^= x >> 7;
        x ^= x << 17;
        c.set(x);
        x
    });
    if r % 4 == 0 {
        std::thread::yield_now();
    }
}

struct Unpark(std::thread::Thread);
impl Wake for Unpark {
    fn wake(self: Arc<Self>) {
        self.0.unpark();
    }
}

fn main() {
    let args = Args::parse();
    let mut sh = Shard::new("C02", &args);
    ev::set_hook(Some(yield_hook));
    vh::shard::quiet_panics();
    let n = args.cases(64, 2_000);
    for i in 0..n {
        let case = args.case_id(i);
        if let Some(only) = args.only_case {
            if only != case {
                continue;
            }
        }
        let mut rng = args.rng().fork(case ^ 0xF2EE);
        match rng.below(3) {
            0 => run_case::<1>(&mut sh, case, &mut rng, &args),
            1 => run_case::<2>(&mut sh, case, &mut rng, &args),
            _ => run_case::<4>(&mut sh, case, &mut rng, &args),
        }
    }
    sh.add("free.hook_hits", HOOK_HITS.load(Ordering::Relaxed));
    sh.finish();
}

fn run_case<const N: usize>(sh: &mut Shard, case: u64, rng: &mut Rng, args: &Args) {
    let apps = 1 + rng.usize_below(3);
    let reqs = args.extra_u64("reqs", 12) as usize;
    let abandon_pct = *rng.pick(&[0u64, 20, 40]);
    let storage = PduStorage::<N, 128>::new();
    let (mut tx, mut rx, pl) = storage.try_split().expect("split");
    let _ = Timeouts::default();
    let done = AtomicBool::new(false);
    let live_apps = AtomicUsize::new(apps);
    let (net_tx, net_rx) = mpsc::channel::<Vec<u8>>();
    let violations: Mutex<Vec<(String, String)>> = Mutex::new(vec![]);
    let completed = AtomicU64::new(0);
    let abandoned = AtomicU64::new(0);
    let views = AtomicU64::new(0);
    let seed = rng.u64();

    std::thread::scope(|s| {
        // TX
        let done = &done;
        let net_tx = net_tx;
        let violations_tx = &violations;
        s.spawn(move || {
            while !done.load(Ordering::Acquire) {
                let r = std::panic::catch_unwind(std::panic::AssertUnwindSafe(|| {
                    let mut any = false;
                    while let Some(f) = tx.next_sendable_frame() {
                        any = true;
                        let mut b = vec![];
                        let _ = f.send_blocking(|bytes| {
                            b = bytes.to_vec();
                            Ok(bytes.len())
                        });
                        let _ = net_tx.send(b);
                    }
                    any
                }));
                match r {
                    Ok(true) => {}
                    Ok(false) => std::thread::yield_now(),
                    Err(p) => violations_tx.lock().unwrap().push(("C02:panic:free-running:tx-thread".into(), vh::shard::panic_text(&p))),
                }
            }
        });
        // RX
        let net_rx = net_rx;
        let violations_rx = &violations;
        s.spawn(move || {
            let mut r = Rng::new(seed ^ 0xABCD);
            loop {
                match net_rx.recv_timeout(Duration::from_millis(2)) {
                    Ok(b) => {
                        let resp = respond(&b, |_, d| {
                            let tag = d.addr;
                            d.data = resp_bytes(tag, d.data.len());
                            d.wkc = resp_wkc(tag);
                        });
                        let dup = r.chance(1, 5);
                        let res = std::panic::catch_unwind(std::panic::AssertUnwindSafe(|| {
                            let _ = rx.receive_frame(&resp);
                            if dup {
                                // duplicate
                                let _ = rx.receive_frame(&resp);
                            }
                        }));
                        if let Err(p) = res {
                            violations_rx.lock().unwrap().push(("C02:panic:free-running:rx-thread".into(), vh::shard::panic_text(&p)));
                        }
                    }
                    Err(_) => {
                        if done.load(Ordering::Acquire) {
                            break;
                        }
                    }
                }
            }
        });
        // apps
        for a in 0..apps {
            let (pl, violations, completed, abandoned, views, live_apps, done) = (&pl, &violations, &completed, &abandoned, &views, &live_apps, done);
            s.spawn(move || {
              let body = std::panic::catch_unwind(std::panic::AssertUnwindSafe(|| {
                let mut rng = Rng::new(seed).fork(a as u64 + 77);
                let waker = Waker::from(Arc::new(Unpark(std::thread::current())));
                let mut cx = Context::from_waker(&waker);
                let mut held: Vec<(ev::ReceivedPdu, Vec<u8>)> = vec![];
                for r in 0..reqs {
                    let tag: u32 = ((a as u32 + 1) << 24) | ((case as u32 & 0xff) << 16) | r as u32;
                    let len = rng.usize_below(40);
                    let kind = 1 + rng.usize_below(NUM_CMD_KINDS - 1);
                    let mut frame = loop {
                        match ev::alloc_frame(pl) {
                            Ok(f) => break f,
                            Err(Error::Pdu(PduError::SwapState)) => {
                                // storage full: let go of held views and try again
                                held.clear();
                                std::thread::yield_now();
                            }
                            Err(e) => panic!("alloc: {e:?}"),
                        }
                    };
                    let payload = rng.bytes(len);
                    let h = frame.push_pdu(make_command(kind, tag as u16, (tag >> 16) as u16), &payload[..], None).expect("push");
                    let mut fut = Box::pin(ev::mark_sendable(frame, pl, Duration::from_secs(3600), 0));
                    let abandon = rng.below(100) < abandon_pct;
                    let mut polls = 0;
                    let out = loop {
                        match Pin::new(&mut fut).poll(&mut cx) {
                            Poll::Ready(v) => break Some(v),
                            Poll::Pending => {}
                        }
                        polls += 1;
                        if abandon && polls > rng.usize_below(3) {
                            break None;
                        }
                        if polls > 20_000 {
                            violations.lock().unwrap().push(("C01:request-never-completed:free-running".into(), format!("app {a} request {r} tag {tag:#x}")));
                            break None;
                        }
                        std::thread::park_timeout(Duration::from_micros(200));
                    };
                    match out {
                        None => {
                            abandoned.fetch_add(1, Ordering::Relaxed);
                            drop(fut);
                        }
                        Some(Err(e)) => violations.lock().unwrap().push((format!("C01:request-failed:free-running:{}", format!("{e:?}").split(['(', ' ']).next().unwrap_or("")), format!("app {a} tag {tag:#x}: {e:?}"))),
                        Some(Ok(rf)) => {
                            drop(fut);
                            completed.fetch_add(1, Ordering::Relaxed);
                            match rf.first_pdu(h).and_then(|v| v.wkc(resp_wkc(tag))) {
                                Ok(view) => {
                                    let want = resp_bytes(tag, len);
                                    if view[..] != want[..] {
                                        violations.lock().unwrap().push(("C01:wrong-response:free-running".into(), format!("app {a} tag {tag:#x}")));
                                    }
                                    held.push((view, want));
                                }
                                Err(e) => violations.lock().unwrap().push(("C01:response-unreadable:free-running".into(), format!("app {a} tag {tag:#x}: {e:?}"))),
                            }
                        }
                    }
                    // held views must keep their bytes while everybody else keeps going
                    for (v, want) in &held {
                        views.fetch_add(1, Ordering::Relaxed);
                        if v[..] != want[..] {
                            violations.lock().unwrap().push(("C01:held-view-changed:free-running".into(), format!("app {a}")));
                        }
                    }
                    if held.len() > 1 || rng.bool() {
                        held.clear();
                    }
                }
                held.clear();
              }));
                if let Err(p) = body {
                    violations.lock().unwrap().push(("C02:panic:free-running:application-thread".into(), vh::shard::panic_text(&p)));
                }
                if live_apps.fetch_sub(1, Ordering::AcqRel) == 1 {
                    done.store(true, Ordering::Release);
                }
            });
        }
    });
    let st = states(&pl);
    let mut v = violations.into_inner().unwrap();
    if st.iter().any(|s| *s != ST_NONE) {
        v.push(("C02:slot-not-free-after-quiescence:free-running".into(), format!("{:?}", st.iter().map(|s| state_name(*s)).collect::<Vec<_>>())));
    }
    sh.case(Some(fnv_mix(fnv_mix(case, apps as u64), N as u64)));
    sh.add("free.requests_completed", completed.load(Ordering::Relaxed));
    sh.add("free.requests_abandoned", abandoned.load(Ordering::Relaxed));
    sh.add("free.view_checks", views.load(Ordering::Relaxed));
    sh.count(&format!("free.threads.{}", apps + 2));
    sh.count(&format!("free.slots.{N}"));
    for (sig, detail) in v.into_iter().take(3) {
        sh.violation(&sig, detail, json!({"case": case}));
    }
    if sh.wants_sample() {
        sh.sample(json!({"case": case, "apps": apps, "slots": N, "requests_per_app": reqs, "abandon_pct": abandon_pct}));
    }
}
