//! C01 / C02 / C06 share the `pduloop` engine; this binary selects the workload family with
//! `--family c01|c02|c06` and reports the violations that belong to that property (plus harness
//! self-checks and panics, which belong to whichever check saw them).

use serde_json::json;
use vh::pleng::{self, DeadlineCfg, EngCfg};
use vh::plmon::Mode;
use vh::prng::{Rng, fnv_mix};
use vh::sched::Policy;
use vh::shard::{Args, Shard};

fn main() {
    let args = Args::parse();
    let family = args.extra.get("family").cloned().unwrap_or_else(|| "c01".into());
    let prop = family.to_uppercase();
    let mut sh = Shard::new(&prop, &args);
    std::panic::set_hook(Box::new(|_| {}));
    let (q, t) = match family.as_str() {
        "c01" => (3_000, 200_000),
        "c02" => (3_000, 200_000),
        _ => (3_000, 200_000),
    };
    let n = args.cases(q, t);
    for i in 0..n {
        let case = args.case_id(i);
        if let Some(only) = args.only_case {
            if only != case {
                continue;
            }
        }
        if std::env::var("VH_PROGRESS").is_ok() {
            eprintln!("case {case}");
        }
        let mut rng = args.rng().fork(case ^ 0xC0_0000);
        let cfg = gen_cfg(&family, &mut rng, case);
        let seed = rng.u64();
        let res = pleng::run(&cfg, seed);
        record(&mut sh, &prop, case, &cfg, seed, &res);
    }
    sh.finish();
}

const SWEEP_STEPS: u64 = 160;

fn gen_cfg(family: &str, rng: &mut Rng, case: u64) -> EngCfg {
    let slots = *rng.pick(&[1usize, 1, 2, 2, 2, 4]);
    let policy = match rng.below(10) {
        0..=4 => Policy::Random { stay_pct: *rng.pick(&[0u64, 50, 80, 90]) },
        5..=7 => Policy::Pct { changes: 1 + rng.usize_below(3), horizon: 400 },
        _ => {
            // one or two pre-emptions at chosen steps
            let k = 1 + rng.usize_below(2);
            Policy::PreemptAt { steps: (0..k).map(|_| rng.below(300)).collect(), to: (0..k).map(|_| rng.usize_below(8)).collect(), lowest_first: false }
        }
    };
    let mut cfg = EngCfg {
        slots,
        frame_len: *rng.pick(&[44usize, 60, 96, 128, 200]),
        apps: 1 + rng.usize_below(3),
        reqs_per_app: 2 + rng.usize_below(4),
        max_dgrams: 1 + rng.usize_below(3),
        max_payload: 40,
        wire_order: rng.below(3) as u8,
        dup_pct: *rng.pick(&[0u64, 0, 20, 50]),
        send_fail_pct: 0,
        abandon_pct: 0,
        hold_views_pct: 50,
        public_api_pct: 40,
        policy,
        max_steps: 30_000,
        mode: Mode::Lifecycle,
        deadlines: None,
        index_wrap: false,
        replay_choices: None,
        record_choices: false,
        sweep: false,
        expire_pct: 0,
        keep_resolved_pct: 40,
    };
    match family {
        "c01" => {
            if case % 10 == 9 {
                // directed family: stale slot + index wrap (many zero-length datagrams per frame,
                // abandoned requests in between)
                cfg.slots = 8;
                cfg.frame_len = 1514;
                // one task: the property assumes fewer than 256 indices are allocated while a
                // request is outstanding, which two tasks with 100-datagram frames would break
                cfg.apps = 1;
                cfg.reqs_per_app = 12 + rng.usize_below(10);
                cfg.max_dgrams = 100;
                cfg.public_api_pct = 0;
                cfg.abandon_pct = 25;
                // views held across the index wrap keep their slot claimed: the slot must not
                // keep matching its old index meanwhile
                cfg.hold_views_pct = if rng.bool() { 0 } else { 60 };
                cfg.index_wrap = true;
                cfg.max_steps = 200_000;
            }
        }
        "c02" => {
            cfg.send_fail_pct = *rng.pick(&[0u64, 20, 40]);
            cfg.abandon_pct = *rng.pick(&[0u64, 20, 40]);
            cfg.dup_pct = *rng.pick(&[0u64, 30, 60]);
            // requests the wire never answers: their deadline passes while the frame is `Sent`
            // (nobody inside), the resolved future is sometimes kept and dropped later
            cfg.expire_pct = *rng.pick(&[0u64, 0, 15, 30]);
            if case % 4 == 0 {
                // small configurations, systematic-ish pre-emption placement
                cfg.slots = 1 + rng.usize_below(2);
                cfg.apps = 2 + rng.usize_below(2);
                cfg.reqs_per_app = 2;
                let k = 1 + rng.usize_below(2);
                cfg.policy = Policy::PreemptAt { steps: (0..k).map(|j| (case / 4 + j as u64 * 37) % 260).collect(), to: (0..k).map(|j| ((case / 4 / 260) as usize + j) % 6).collect(), lowest_first: rng.bool() };
            }
        }
        _ => {
            cfg.mode = Mode::Deadlines;
            cfg.hold_views_pct = 30;
            cfg.public_api_pct = 30;
            cfg.deadlines = Some(DeadlineCfg {
                timeout_us: *rng.pick(&[50u64, 200, 1000]),
                retries: *rng.pick(&[0usize, 0, 1, 2, 3, usize::MAX]),
                lose_pct: *rng.pick(&[0u64, 30, 60, 100]),
                abandon_any_pct: *rng.pick(&[0u64, 0, 30, 60]),
                early_delivery: rng.chance(1, 4),
            });
            cfg.slots = *rng.pick(&[1usize, 1, 2]);
            cfg.apps = 2 + rng.usize_below(2);
            cfg.reqs_per_app = 2 + rng.usize_below(3);
            // a transmission that fails (error / partial send) inside the window in which the request
            // is given up is part of "at any moment"
            cfg.send_fail_pct = *rng.pick(&[0u64, 0, 30, 100]);
            if case % 2 == 0 {
                // Systematic part: the bounded space "1 slot, competitor + victim, one or two
                // requests each" with ONE forced switch at step i to actor t, everything else
                // deterministic (lowest actor id first). The space (step i < 160) x (actor t: TX, RX,
                // clock, competitor, victim) x (1|2 requests) x (retries 0|1|2) x (all lost | none
                // lost) x (abandon never | always) x (early delivery) x (send ok | first send of every
                // frame fails) has 115200 points; case number k visits point (k * 48271) mod 115200,
                // a bijection, so a run of n sweep cases visits n distinct points spread evenly over
                // every dimension and 115200 cases visit them all.
                const SPACE: u64 = SWEEP_STEPS * 5 * 2 * 72;
                let p = (case / 2).wrapping_mul(48271) % SPACE;
                let step = p % SWEEP_STEPS;
                let to = p / SWEEP_STEPS % 5;
                let reqs = p / (SWEEP_STEPS * 5) % 2;
                let variant = p / (SWEEP_STEPS * 5 * 2);
                cfg.slots = 1;
                cfg.apps = 2;
                cfg.reqs_per_app = 1 + reqs as usize;
                cfg.max_dgrams = 1;
                cfg.wire_order = 0;
                cfg.dup_pct = 0;
                cfg.deadlines = Some(DeadlineCfg {
                    timeout_us: 100,
                    retries: (variant % 3) as usize,
                    lose_pct: if variant / 3 % 2 == 0 { 100 } else { 0 },
                    abandon_any_pct: if variant / 6 % 2 == 0 { 0 } else { 100 },
                    early_delivery: variant / 12 % 2 == 1,
                });
                cfg.send_fail_pct = if variant / 24 % 3 == 0 { 0 } else { 100 };
                cfg.policy = Policy::PreemptAt { steps: vec![step], to: vec![to as usize], lowest_first: true };
                cfg.sweep = true;
            }
        }
    }
    cfg
}

fn record(sh: &mut Shard, prop: &str, case: u64, cfg: &EngCfg, seed: u64, res: &pleng::ExecResult) {
    // distinct + non-trivial: >= 2 actors interleaved on one slot, or a reorder/duplicate/
    // abandon/expiry happened; distinct by hash of the event trace.
    let nontrivial = res.interleaved || res.reorders > 0 || res.duplicates > 0 || res.abandoned > 0 || res.timeouts > 0;
    sh.case(if nontrivial { Some(fnv_mix(res.trace_hash, res.sched_hash)) } else { None });
    sh.add("steps", res.steps);
    sh.add("context_switches", res.switches);
    sh.add("requests_completed", res.completed);
    sh.add("requests_abandoned", res.abandoned);
    sh.add("responses_reordered", res.reorders);
    sh.add("responses_duplicated", res.duplicates);
    sh.add("view_checks", res.views_checked);
    sh.add("views_held_across_requests", res.views_held_across_requests);
    sh.add("front_trims", res.trims);
    sh.add("access_windows", res.windows);
    sh.add("send_failures", res.send_failures);
    sh.add("timeouts", res.timeouts);
    sh.add("wire_losses", res.lost);
    sh.max("virtual_time_us", res.max_vtime);
    if res.interleaved {
        sh.count("executions_with_interleaving_on_a_slot");
    }
    if res.over_budget {
        sh.count("executions_over_step_budget");
    }
    sh.count(&format!("cfg.slots.{}", cfg.slots));
    sh.count(&format!("cfg.apps.{}", cfg.apps));
    sh.count(&format!("cfg.policy.{}", match cfg.policy { Policy::Random { .. } => "random", Policy::Pct { .. } => "pct", Policy::PreemptAt { .. } => "preempt-at" }));
    if cfg.index_wrap {
        sh.count("cfg.index_wrap_family");
    }
    if cfg.sweep {
        sh.count("cfg.systematic_single_preemption_sweep");
        if let Policy::PreemptAt { steps, to, .. } = &cfg.policy {
            sh.distinct_aux(0x5EE9_0000_0000 | (steps[0] << 8) | to[0] as u64);
            // full sweep points (all dimensions) are distinct by construction (bijection on the case
            // number) as long as fewer than 115200 sweep cases run
            sh.count("sweep_points_of_115200");
            if cfg.send_fail_pct > 0 {
                sh.count("sweep_points_with_failing_first_send");
            }
        }
    }
    if let Some(d) = &cfg.deadlines {
        sh.count(&format!("cfg.retries.{}", if d.retries == usize::MAX { "forever".to_string() } else { d.retries.to_string() }));
        sh.count(&format!("cfg.lose_pct.{}", d.lose_pct));
        if d.early_delivery {
            sh.count("cfg.early_delivery");
        }
    }
    sh.add("retransmissions", res.retransmissions);
    sh.add("forever_policy_observed_8_periods", res.forever_observed);
    sh.add("resolved_futures_kept", res.resolved_futures_kept);
    sh.add("resolved_futures_dropped_late", res.resolved_futures_dropped_late);
    sh.add("unanswered_requests_expired_while_sent", res.doomed_expired);
    for (k, v) in &res.transitions {
        sh.add(&format!("transition.{k}"), *v);
    }
    for (k, v) in &res.sites {
        sh.add(&format!("site.{k}"), *v);
    }
    for v in &res.vectors {
        // distinct slot-state vectors are counted per shard via a separate hash space
        sh.distinct_aux(*v);
    }
    if sh.wants_sample() && nontrivial && res.steps > 100 {
        sh.sample(json!({"case": case, "slots": cfg.slots, "apps": cfg.apps, "frame_len": cfg.frame_len, "policy": format!("{:?}", cfg.policy).chars().take(120).collect::<String>(), "steps": res.steps, "switches": res.switches, "completed": res.completed, "abandoned": res.abandoned, "reorders": res.reorders, "duplicates": res.duplicates, "transitions": res.transitions}));
    }
    sh.add("alloc_refused_storage_full", res.alloc_refused);
    // Only the first violation of an execution (in event order) is reported: later ones are
    // usually consequences of the first. The rest are counted.
    let mut mine = res.violations.iter().filter(|(sig, _)| sig.starts_with(prop) || sig.starts_with("PANIC") || sig.starts_with("HARNESS"));
    if let Some((sig, detail)) = mine.next() {
        sh.violation(sig, format!("{detail}\n  cfg: {cfg:?}"), json!({"case": case, "engine_seed": seed}));
    }
    sh.add("secondary_signals", mine.count() as u64);
    for (sig, _) in res.violations.iter().filter(|(sig, _)| !(sig.starts_with(prop) || sig.starts_with("PANIC") || sig.starts_with("HARNESS"))) {
        sh.count(&format!("other_property_signal.{}", sig.split(':').take(2).collect::<Vec<_>>().join(":")));
    }
}
