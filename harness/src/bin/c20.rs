//! C20 — tasks sharing one MainDevice do not disturb each other.
//!
//! Oracle: the same scenario is run twice from identically built networks: once with the tasks
//! interleaved by the seeded executor at every await (frames answered with random latencies, in
//! any order), once with each task running alone to completion. Every task must observe exactly
//! the same result sequence in both runs, and nothing may fail in the interleaved run.

use ethercrab::{Command, MainDevice, SubDeviceGroup, SubDeviceGroupHandle};
use serde_json::json;
use std::future::Future;
use std::pin::Pin;
use std::sync::Arc;
use std::sync::atomic::{AtomicBool, AtomicU64, AtomicUsize, Ordering};
use std::task::{Context, Poll, Wake, Waker};
use vh::prng::{Rng, fnv, fnv_mix};
use vh::shard::{Args, Shard, hex};
use vh::sim::desc::*;
use vh::sim::{Net, Sim};
use vh::simrun::*;

#[derive(Default)]
struct Groups {
    g: [SubDeviceGroup<8, 256>; 3],
}

/// How the task set is executed.
#[derive(Clone, Copy, PartialEq, Eq, Debug)]
enum Mode {
    /// each task alone, to completion (the sequential oracle)
    Alone,
    /// cooperative interleaving by the seeded executor at every await
    Interleaved,
    /// one OS thread per task + the network on a further thread: real parallelism on one
    /// `MainDevice` (run under ThreadSanitizer / Miri; timeouts are effectively infinite so that a
    /// descheduled thread cannot turn into a spurious `Timeout`)
    Threads,
}

struct Unpark(std::thread::Thread);
impl Wake for Unpark {
    fn wake(self: Arc<Self>) {
        self.0.unpark();
    }
}

static HOOK_HITS: AtomicU64 = AtomicU64::new(0);
thread_local! {
    static YIELD_RNG: std::cell::Cell<u64> = const { std::cell::Cell::new(0x9E3779B97F4A7C15) };
}

/// cfg-gated PDU-loop hooks: in thread mode they only widen windows with random yields.
fn yield_hook(_site: ethercrab::verif::Site, _addr: usize, _a: u8, _b: u8) {
    HOOK_HITS.fetch_add(1, Ordering::Relaxed);
    let r = YIELD_RNG.with(|c| {
        let mut x = c.get();
        x ^= x << 13;
        x ^= x >> 7;
        x ^= x << 17;
        c.set(x);
        x
    });
    if r % 8 == 0 {
        std::thread::yield_now();
    }
}

fn main() {
    let args = Args::parse();
    let mut sh = Shard::new("C20", &args);
    let threads = args.extra_u64("threads", 0) == 1;
    if threads {
        ethercrab::verif::set_hook(Some(yield_hook));
    }
    std::panic::set_hook(Box::new(|i| { if std::env::var("VH_PANICS").is_ok() { eprintln!("{i}"); } }));
    let n = if threads { args.cases(320, 6_400) } else { args.cases(480, 48_000) };
    for i in 0..n {
        let case = args.case_id(i);
        if let Some(only) = args.only_case {
            if only != case {
                continue;
            }
        }
        let mut rng = args.rng().fork(case ^ 0xC20);
        run_case(&mut sh, case, &mut rng, threads);
    }
    if threads {
        sh.add("threads.hook_hits", HOOK_HITS.load(Ordering::Relaxed));
    }
    sh.finish();
}

fn device(rng: &mut Rng, small_mailbox: bool) -> DeviceDesc {
    let mut d = gen_pd_desc(rng, &PdOpts { coe: true, max_pdos: 2, max_sms_per_dir: 1, contiguous: true, fmmu_ex: false });
    d.ram_bytes = 0x6000;
    if small_mailbox {
        // 32 byte mailboxes: a 1 KiB object needs ~50 upload segments, i.e. the task holds its
        // first response for well over a hundred datagrams of its own
        if let Some((wo, _, ro, _)) = d.mailbox {
            d.mailbox = Some((wo, 32, ro, 32));
            for sm in d.sms.iter_mut() {
                if sm.usage == 1 || sm.usage == 2 {
                    sm.len = 32;
                }
            }
            d.eeprom_bytes = build_sii(&d).len().next_power_of_two().max(2048);
        }
    }
    d
}

#[derive(Clone, Debug)]
enum Task {
    Cycle { group: usize, n: usize },
    Regs { dev: usize, n: usize, area: u16 },
    Sdo { dev: usize, n: usize, index: u16 },
    /// segmented upload of a 1 KiB object through a 32 byte mailbox: the request's first response
    /// stays held while hundreds of datagram indices are used by everybody
    SdoLong { dev: usize, n: usize, index: u16 },
}

type Trace = Vec<String>;

fn build_net(descs: &[DeviceDesc], data_seed: u64) -> Net {
    let mut net = Net::chain(descs.to_vec());
    let mut r = Rng::new(data_seed);
    for d in net.devs.iter_mut() {
        // static input memory and objects
        let sms = d.desc.sms.clone();
        for (i, smd) in sms.iter().enumerate() {
            if smd.usage == 4 {
                let l = d.desc.sm_pd_bytes(i as u8) as usize;
                let p = r.bytes(l);
                d.mem[smd.start as usize..smd.start as usize + l].copy_from_slice(&p);
            }
        }
        for k in 0..4u16 {
            d.mailbox.od.insert((0x3000 + k, 1), r.bytes(4));
            d.mailbox.od.insert((0x3100 + k, 1), r.bytes(20));
            d.mailbox.od.insert((0x3300 + k, 1), r.bytes(1024));
        }
    }
    net
}

fn run_scenario<const N: usize>(descs: &[DeviceDesc], k: usize, tasks: &[Task], seed: u64, data_seed: u64, mode: Mode, latency: (u64, u64)) -> Result<(Vec<Trace>, Vec<String>, u64), String> {
    let net = build_net(descs, data_seed);
    let n = descs.len();
    let tasks = tasks.to_vec();
    let mut cfg = MdCfg { dc_static_sync_iterations: 0, ..Default::default() };
    if mode == Mode::Threads {
        // a descheduled OS thread must never look like a silent device
        let long = std::time::Duration::from_secs(1_000_000);
        cfg.timeouts.pdu = long;
        cfg.timeouts.state_transition = long;
        cfg.timeouts.mailbox_echo = long;
        cfg.timeouts.mailbox_response = long;
        cfg.timeouts.eeprom = long;
    }
    with_sim_n::<N, _>(net, seed, &cfg, |md: &MainDevice, sim: &mut Sim| {
        let mut counter = 0usize;
        let groups = match sim.run(md.init::<8, _>(|| 0, Groups::default(), |g: &Groups, _sd| {
            let i = counter % k;
            counter += 1;
            Ok(&g.g[i] as &dyn SubDeviceGroupHandle)
        })) {
            Ok(Ok(g)) => g,
            other => return Err(format!("init: {:?}", other.map(|r| r.map(|_| ())))),
        };
        let [g0, g1, g2] = groups.g;
        let mut ops = vec![];
        for (gi, g) in [g0, g1, g2].into_iter().enumerate() {
            if gi >= k || !(0..n).any(|i| i % k == gi) {
                ops.push(None);
                continue;
            }
            match sim.run(g.into_op(md)) {
                Ok(Ok(g)) => ops.push(Some(g)),
                other => return Err(format!("into_op: {:?}", other.map(|r| r.map(|_| ())))),
            }
        }
        // from here on the network is hostile about timing
        sim.latency_us = latency;
        sim.reorder = true;
        let frames0 = sim.frames_tx;
        let mut futs: Vec<Pin<Box<dyn Future<Output = Trace> + Send + '_>>> = vec![];
        for (ti, t) in tasks.iter().enumerate() {
            match t.clone() {
                Task::Cycle { group, n } => {
                    let g = ops[group].as_ref().unwrap();
                    futs.push(Box::pin(async move {
                        let mut tr = vec![];
                        for c in 0..n {
                            for (di, sd) in g.iter(md).enumerate() {
                                let mut io = sd.io_raw_mut();
                                for (bi, b) in io.outputs().iter_mut().enumerate() {
                                    *b = (ti as u8) << 6 | ((c as u8) << 3) ^ (di as u8 * 31) ^ bi as u8;
                                }
                            }
                            match g.tx_rx(md).await {
                                Ok(r) => {
                                    let mut ins = vec![];
                                    for sd in g.iter(md) {
                                        ins.extend_from_slice(&sd.inputs_raw());
                                    }
                                    tr.push(format!("cycle {c}: wkc {} states {:?} inputs {}", r.working_counter, r.subdevice_states, hex(&ins)));
                                }
                                Err(e) => tr.push(format!("cycle {c}: FAILED {e:?}")),
                            }
                        }
                        tr
                    }));
                }
                Task::Regs { dev, n, area } => {
                    let addr = 0x1000 + dev as u16;
                    futs.push(Box::pin(async move {
                        let mut tr = vec![];
                        for c in 0..n {
                            let v: u32 = 0xA000_0000 | ((ti as u32) << 16) | c as u32;
                            match Command::fpwr(addr, area).send_receive::<u32>(md, v).await {
                                Ok(x) => tr.push(format!("write {c}: {x:#x}")),
                                Err(e) => tr.push(format!("write {c}: FAILED {e:?}")),
                            }
                            match Command::fprd(addr, area).receive::<u32>(md).await {
                                Ok(x) => tr.push(format!("read {c}: {x:#x}")),
                                Err(e) => tr.push(format!("read {c}: FAILED {e:?}")),
                            }
                            match Command::fprd(addr, 0x0130u16).receive::<u16>(md).await {
                                Ok(x) => tr.push(format!("status {c}: {x:#x}")),
                                Err(e) => tr.push(format!("status {c}: FAILED {e:?}")),
                            }
                        }
                        tr
                    }));
                }
                Task::SdoLong { dev, n, index } => {
                    let gi = dev % k;
                    let pos = dev / k;
                    let g = ops[gi].as_ref().unwrap();
                    futs.push(Box::pin(async move {
                        let mut tr = vec![];
                        let sd = g.subdevice(md, pos).unwrap();
                        for c in 0..n {
                            match sd.sdo_read::<[u8; 1024]>(0x3300 + index, 1).await {
                                Ok(x) => tr.push(format!("sdo_read1k {c}: {:016x}", fnv(&x))),
                                Err(e) => tr.push(format!("sdo_read1k {c}: FAILED {e:?}")),
                            }
                        }
                        tr
                    }));
                }
                Task::Sdo { dev, n, index } => {
                    let gi = dev % k;
                    let pos = dev / k;
                    let g = ops[gi].as_ref().unwrap();
                    futs.push(Box::pin(async move {
                        let mut tr = vec![];
                        let sd = g.subdevice(md, pos).unwrap();
                        for c in 0..n {
                            match sd.sdo_read::<u32>(0x3000 + index, 1).await {
                                Ok(x) => tr.push(format!("sdo_read {c}: {x:#x}")),
                                Err(e) => tr.push(format!("sdo_read {c}: FAILED {e:?}")),
                            }
                            match sd.sdo_read::<[u8; 20]>(0x3100 + index, 1).await {
                                Ok(x) => tr.push(format!("sdo_read20 {c}: {}", hex(&x))),
                                Err(e) => tr.push(format!("sdo_read20 {c}: FAILED {e:?}")),
                            }
                            let v = 0x5D00_0000u32 | ((ti as u32) << 8) | c as u32;
                            match sd.sdo_write(0x3200 + index, 1, v).await {
                                Ok(()) => tr.push(format!("sdo_write {c}: ok")),
                                Err(e) => tr.push(format!("sdo_write {c}: FAILED {e:?}")),
                            }
                        }
                        tr
                    }));
                }
            }
        }
        let traces: Vec<Trace> = if mode == Mode::Interleaved {
            let futs = futs.into_iter().map(|f| f as Pin<Box<dyn Future<Output = Trace> + '_>>).collect();
            match sim.run_many(futs) {
                Ok(t) => t,
                Err(s) => return Err(format!("interleaved run: {s:?}")),
            }
        } else if mode == Mode::Threads {
            let live = AtomicUsize::new(futs.len());
            let abort = AtomicBool::new(false);
            // network progress counter, and for every task the value it had when the task last
            // polled Pending (u64::MAX = finished)
            let net_progress = AtomicU64::new(1);
            let pending_at: Vec<AtomicU64> = (0..futs.len()).map(|_| AtomicU64::new(0)).collect();
            let mut stuck = false;
            let out: Vec<Option<Trace>> = std::thread::scope(|s| {
                let handles: Vec<_> = futs
                    .into_iter()
                    .enumerate()
                    .map(|(ti, mut f)| {
                        let (live, abort, net_progress, pending_at) = (&live, &abort, &net_progress, &pending_at);
                        s.spawn(move || {
                            let waker = Waker::from(Arc::new(Unpark(std::thread::current())));
                            let mut cx = Context::from_waker(&waker);
                            let r = loop {
                                let seen = net_progress.load(Ordering::Acquire);
                                if let Poll::Ready(v) = f.as_mut().poll(&mut cx) {
                                    break Some(v);
                                }
                                pending_at[ti].store(seen, Ordering::Release);
                                if abort.load(Ordering::Acquire) {
                                    break None;
                                }
                                std::thread::park_timeout(std::time::Duration::from_micros(200));
                            };
                            pending_at[ti].store(u64::MAX, Ordering::Release);
                            live.fetch_sub(1, Ordering::AcqRel);
                            r
                        })
                    })
                    .collect();
                // this thread is the network (TX + simulated segment + RX) and the clock
                let t0 = std::time::Instant::now();
                let mut idle = 0u64;
                while live.load(Ordering::Acquire) > 0 {
                    if sim.pump() {
                        idle = 0;
                        net_progress.fetch_add(1, Ordering::AcqRel);
                    } else {
                        idle += 1;
                        vh::vclock::advance_by(20);
                        std::thread::yield_now();
                    }
                    // Nobody can make progress any more: the network has been idle for 200000 steps
                    // (4 s of virtual time: every timer-driven wait loop would have sent something),
                    // nothing is in flight, and every live task has polled Pending since the network
                    // last did anything. With the effectively infinite timeouts of this mode that is
                    // a request that will never complete - decided on logical steps, not wall time.
                    if idle >= 200_000 && idle % 50_000 == 0 && sim.inflight.is_empty() {
                        let now = net_progress.load(Ordering::Acquire);
                        if pending_at.iter().all(|p| { let v = p.load(Ordering::Acquire); v == u64::MAX || v == now }) {
                            stuck = true;
                            abort.store(true, Ordering::Release);
                        }
                    }
                    if idle % 4096 == 4095 && t0.elapsed().as_secs() > 1200 {
                        abort.store(true, Ordering::Release);
                    }
                }
                handles.into_iter().map(|h| h.join().ok().flatten()).collect()
            });
            if stuck {
                return Err("STUCK: every task is waiting, the network is idle and nothing is in flight: a request of the shared run never completes".into());
            }
            if out.iter().any(|o| o.is_none()) {
                return Err("WATCHDOG: threaded run did not finish within 1200 s of wall clock (or a task panicked)".into());
            }
            out.into_iter().map(|o| o.unwrap()).collect()
        } else {
            let mut out = vec![];
            for mut f in futs {
                match sim.run_pinned(f.as_mut()) {
                    Ok(t) => out.push(t),
                    Err(s) => return Err(format!("sequential run: {s:?}")),
                }
            }
            out
        };
        // final device-side state the tasks produced (must not depend on interleaving either)
        let mut finals = vec![];
        for d in sim.net.devs.iter() {
            let mut s = String::new();
            for (i, smd) in d.desc.sms.iter().enumerate() {
                if smd.usage == 3 {
                    let l = d.desc.sm_pd_bytes(i as u8) as usize;
                    s.push_str(&hex(&d.mem[smd.start as usize..smd.start as usize + l]));
                }
            }
            s.push('|');
            s.push_str(&format!("{:?}", d.mailbox.downloads.iter().map(|x| (x.0, x.1, hex(&x.2))).collect::<Vec<_>>()));
            finals.push(s);
        }
        Ok((traces, finals, sim.frames_tx - frames0))
    })
}

fn run_case(sh: &mut Shard, case: u64, rng: &mut Rng, threads: bool) {
    let n = 2 + rng.usize_below(7);
    let k = 2 + rng.usize_below(2);
    // a quarter of the scenarios: long segmented uploads next to busy tasks (index wrap while a
    // response is held)
    let long_family = rng.chance(1, 4);
    let descs: Vec<DeviceDesc> = (0..n).map(|_| device(rng, long_family)).collect();
    // tasks: one cycle task per used group (at most), register tasks and SDO tasks on distinct devices
    let nt = 2 + rng.usize_below(3);
    let mut tasks = vec![];
    let mut used_groups = vec![];
    let mut sdo_devs: Vec<usize> = vec![];
    for t in 0..nt {
        match rng.below(3) {
            0 => {
                let free: Vec<usize> = (0..k).filter(|g| !used_groups.contains(g) && (0..n).any(|i| i % k == *g)).collect();
                if let Some(g) = free.first() {
                    used_groups.push(*g);
                    tasks.push(Task::Cycle { group: *g, n: 2 + rng.usize_below(5) });
                    continue;
                }
                tasks.push(Task::Regs { dev: rng.usize_below(n), n: 2 + rng.usize_below(4), area: 0x4000 + 0x100 * t as u16 });
            }
            1 => tasks.push(Task::Regs { dev: rng.usize_below(n), n: 2 + rng.usize_below(4), area: 0x4000 + 0x100 * t as u16 }),
            _ => {
                let free: Vec<usize> = (0..n).filter(|d| !sdo_devs.contains(d)).collect();
                if free.is_empty() {
                    tasks.push(Task::Regs { dev: rng.usize_below(n), n: 2 + rng.usize_below(4), area: 0x4000 + 0x100 * t as u16 });
                    continue;
                }
                let dev = *rng.pick(&free);
                sdo_devs.push(dev);
                if long_family {
                    tasks.push(Task::SdoLong { dev, n: 1 + rng.usize_below(2), index: (t % 4) as u16 });
                } else {
                    tasks.push(Task::Sdo { dev, n: 1 + rng.usize_below(3), index: t as u16 });
                }
            }
        }
    }
    if long_family {
        if !tasks.iter().any(|t| matches!(t, Task::SdoLong { .. })) {
            tasks[0] = Task::SdoLong { dev: rng.usize_below(n), n: 1, index: 0 };
        }
        for t in tasks.iter_mut() {
            match t {
                Task::Cycle { n, .. } | Task::Regs { n, .. } => *n = 20 + rng.usize_below(30),
                _ => {}
            }
        }
    }
    let seed = rng.u64();
    let data_seed = rng.u64();
    // 4 = "just enough" (the storage must be a power of two): every task has at most one frame in
    // flight (single-frame images), so at most 3 tasks keep fewer frames in flight than the storage holds
    // (a segmented upload keeps the slot of its first response while each segment request needs another)
    let demand = nt + tasks.iter().filter(|t| matches!(t, Task::SdoLong { .. })).count();
    let slots = if demand <= 3 { *rng.pick(&[4usize, 8, 16, 16]) } else { *rng.pick(&[8usize, 16, 16]) };
    let latency = *rng.pick(&[(0u64, 0u64), (0, 50), (0, 500), (100, 500)]);
    let scenario = json!({"case": case, "devices": n, "groups": k, "slots": slots, "latency_us": [latency.0, latency.1], "tasks": tasks.iter().map(|t| format!("{t:?}")).collect::<Vec<_>>()});
    sh.case(Some(fnv_mix(fnv(scenario.to_string().as_bytes()), case)));
    sh.count(&format!("tasks.{nt}"));
    sh.count(&format!("slots.{slots}"));
    let run = |mode: Mode| {
        let r = std::panic::catch_unwind(std::panic::AssertUnwindSafe(|| if slots == 4 { run_scenario::<4>(&descs, k, &tasks, seed, data_seed, mode, latency) } else if slots == 8 { run_scenario::<8>(&descs, k, &tasks, seed, data_seed, mode, latency) } else { run_scenario::<16>(&descs, k, &tasks, seed, data_seed, mode, latency) }));
        match r {
            Err(p) => Err(format!("PANIC:{}", p.downcast_ref::<String>().cloned().or_else(|| p.downcast_ref::<&str>().map(|s| s.to_string())).unwrap_or_default())),
            Ok(x) => x,
        }
    };
    let alone = run(Mode::Alone);
    let together = run(if threads { Mode::Threads } else { Mode::Interleaved });
    if threads {
        sh.count("threads.cases");
        sh.add("threads.os_threads", nt as u64 + 1);
        if let Err(e) = &together {
            if e.starts_with("WATCHDOG") {
                sh.observe("threads.watchdog", e.clone());
                sh.inconclusive = Some(e.clone());
                return;
            }
        }
    }
    match (alone, together) {
        (Err(e), _) => sh.violation(&format!("C20:sequential-run-failed:{}", e.split(':').next().unwrap_or("")), e, scenario.clone()),
        (_, Err(e)) => sh.violation(&format!("C20:interleaved-run-failed:{}", e.split(':').next().unwrap_or("")), e, scenario.clone()),
        (Ok((ta, fa, _)), Ok((tt, ft, frames))) => {
            sh.add("frames_interleaved", frames);
            for (i, (a, t)) in ta.iter().zip(tt.iter()).enumerate() {
                sh.add("operations", a.len() as u64);
                let kind = match tasks[i] {
                    Task::Cycle { .. } => "cycle",
                    Task::Regs { .. } => "register",
                    Task::Sdo { .. } => "sdo",
                    Task::SdoLong { .. } => "sdo-long-segmented",
                };
                sh.count(&format!("task.{kind}"));
                if let Some(f) = a.iter().find(|l| l.contains("FAILED")) {
                    sh.violation(&format!("C20:operation-fails-alone:{kind}"), f.clone(), scenario.clone());
                    continue;
                }
                if a != t {
                    let idx = (0..a.len().min(t.len())).find(|j| a[*j] != t[*j]).unwrap_or(0);
                    let failed = t.get(idx).is_some_and(|l| l.contains("FAILED"));
                    let sig = if failed { format!("C20:operation-fails-only-when-shared:{kind}") } else { format!("C20:result-differs-when-shared:{kind}") };
                    sh.violation(&sig, format!("task {i} ({:?}) step {idx}: alone -> {:?}; shared -> {:?}", tasks[i], a.get(idx), t.get(idx)), scenario.clone());
                }
            }
            if fa != ft {
                let d = (0..fa.len()).find(|i| fa[*i] != ft[*i]).unwrap_or(0);
                sh.violation("C20:device-state-differs-when-shared", format!("device {d}: alone {} ; shared {}", fa[d], ft[d]), scenario.clone());
            }
        }
    }
    if sh.wants_sample() {
        sh.sample(scenario);
    }
}
