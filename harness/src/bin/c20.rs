//! C20 — tasks sharing one MainDevice do not disturb each other.
//!
//! Oracle: the same scenario is run twice from identically built networks: once with the tasks
//! interleaved by the seeded executor at every await (frames answered with random latencies, in
//! any order), once with each task running alone to completion. Every task must observe exactly
//! the same result sequence in both runs, and nothing may fail in the interleaved run.

use ethercrab::{Command, MainDevice, SubDeviceGroup, SubDeviceGroupHandle};
use serde_json::json;
use std::future::Future;
use std::pin::Pin;
use vh::prng::{Rng, fnv, fnv_mix};
use vh::shard::{Args, Shard, hex};
use vh::sim::desc::*;
use vh::sim::{Net, Sim};
use vh::simrun::*;

#[derive(Default)]
struct Groups {
    g: [SubDeviceGroup<8, 256>; 3],
}

fn main() {
    let args = Args::parse();
    let mut sh = Shard::new("C20", &args);
    std::panic::set_hook(Box::new(|i| { if std::env::var("VH_PANICS").is_ok() { eprintln!("{i}"); } }));
    let n = args.cases(480, 48_000);
    for i in 0..n {
        let case = args.case_id(i);
        if let Some(only) = args.only_case {
            if only != case {
                continue;
            }
        }
        let mut rng = args.rng().fork(case ^ 0xC20);
        run_case(&mut sh, case, &mut rng);
    }
    sh.finish();
}

fn device(rng: &mut Rng) -> DeviceDesc {
    let mut d = gen_pd_desc(rng, &PdOpts { coe: true, max_pdos: 2, max_sms_per_dir: 1, contiguous: true, fmmu_ex: false });
    d.ram_bytes = 0x6000;
    d
}

#[derive(Clone, Debug)]
enum Task {
    Cycle { group: usize, n: usize },
    Regs { dev: usize, n: usize, area: u16 },
    Sdo { dev: usize, n: usize, index: u16 },
}

type Trace = Vec<String>;

fn build_net(descs: &[DeviceDesc], data_seed: u64) -> Net {
    let mut net = Net::chain(descs.to_vec());
    let mut r = Rng::new(data_seed);
    for d in net.devs.iter_mut() {
        // static input memory and objects
        let sms = d.desc.sms.clone();
        for (i, smd) in sms.iter().enumerate() {
            if smd.usage == 4 {
                let l = d.desc.sm_pd_bytes(i as u8) as usize;
                let p = r.bytes(l);
                d.mem[smd.start as usize..smd.start as usize + l].copy_from_slice(&p);
            }
        }
        for k in 0..4u16 {
            d.mailbox.od.insert((0x3000 + k, 1), r.bytes(4));
            d.mailbox.od.insert((0x3100 + k, 1), r.bytes(20));
        }
    }
    net
}

fn run_scenario<const N: usize>(descs: &[DeviceDesc], k: usize, tasks: &[Task], seed: u64, data_seed: u64, interleaved: bool, latency: (u64, u64)) -> Result<(Vec<Trace>, Vec<String>, u64), String> {
    let net = build_net(descs, data_seed);
    let n = descs.len();
    let tasks = tasks.to_vec();
    with_sim_n::<N, _>(net, seed, &MdCfg { dc_static_sync_iterations: 0, ..Default::default() }, |md: &MainDevice, sim: &mut Sim| {
        let mut counter = 0usize;
        let groups = match sim.run(md.init::<8, _>(|| 0, Groups::default(), |g: &Groups, _sd| {
            let i = counter % k;
            counter += 1;
            Ok(&g.g[i] as &dyn SubDeviceGroupHandle)
        })) {
            Ok(Ok(g)) => g,
            other => return Err(format!("init: {:?}", other.map(|r| r.map(|_| ())))),
        };
        let [g0, g1, g2] = groups.g;
        let mut ops = vec![];
        for (gi, g) in [g0, g1, g2].into_iter().enumerate() {
            if gi >= k || !(0..n).any(|i| i % k == gi) {
                ops.push(None);
                continue;
            }
            match sim.run(g.into_op(md)) {
                Ok(Ok(g)) => ops.push(Some(g)),
                other => return Err(format!("into_op: {:?}", other.map(|r| r.map(|_| ())))),
            }
        }
        // from here on the network is hostile about timing
        sim.latency_us = latency;
        sim.reorder = true;
        let frames0 = sim.frames_tx;
        let mut futs: Vec<Pin<Box<dyn Future<Output = Trace> + '_>>> = vec![];
        for (ti, t) in tasks.iter().enumerate() {
            match t.clone() {
                Task::Cycle { group, n } => {
                    let g = ops[group].as_ref().unwrap();
                    futs.push(Box::pin(async move {
                        let mut tr = vec![];
                        for c in 0..n {
                            for (di, sd) in g.iter(md).enumerate() {
                                let mut io = sd.io_raw_mut();
                                for (bi, b) in io.outputs().iter_mut().enumerate() {
                                    *b = (ti as u8) << 6 | ((c as u8) << 3) ^ (di as u8 * 31) ^ bi as u8;
                                }
                            }
                            match g.tx_rx(md).await {
                                Ok(r) => {
                                    let mut ins = vec![];
                                    for sd in g.iter(md) {
                                        ins.extend_from_slice(&sd.inputs_raw());
                                    }
                                    tr.push(format!("cycle {c}: wkc {} states {:?} inputs {}", r.working_counter, r.subdevice_states, hex(&ins)));
                                }
                                Err(e) => tr.push(format!("cycle {c}: FAILED {e:?}")),
                            }
                        }
                        tr
                    }));
                }
                Task::Regs { dev, n, area } => {
                    let addr = 0x1000 + dev as u16;
                    futs.push(Box::pin(async move {
                        let mut tr = vec![];
                        for c in 0..n {
                            let v: u32 = 0xA000_0000 | ((ti as u32) << 16) | c as u32;
                            match Command::fpwr(addr, area).send_receive::<u32>(md, v).await {
                                Ok(x) => tr.push(format!("write {c}: {x:#x}")),
                                Err(e) => tr.push(format!("write {c}: FAILED {e:?}")),
                            }
                            match Command::fprd(addr, area).receive::<u32>(md).await {
                                Ok(x) => tr.push(format!("read {c}: {x:#x}")),
                                Err(e) => tr.push(format!("read {c}: FAILED {e:?}")),
                            }
                            match Command::fprd(addr, 0x0130u16).receive::<u16>(md).await {
                                Ok(x) => tr.push(format!("status {c}: {x:#x}")),
                                Err(e) => tr.push(format!("status {c}: FAILED {e:?}")),
                            }
                        }
                        tr
                    }));
                }
                Task::Sdo { dev, n, index } => {
                    let gi = dev % k;
                    let pos = dev / k;
                    let g = ops[gi].as_ref().unwrap();
                    futs.push(Box::pin(async move {
                        let mut tr = vec![];
                        let sd = g.subdevice(md, pos).unwrap();
                        for c in 0..n {
                            match sd.sdo_read::<u32>(0x3000 + index, 1).await {
                                Ok(x) => tr.push(format!("sdo_read {c}: {x:#x}")),
                                Err(e) => tr.push(format!("sdo_read {c}: FAILED {e:?}")),
                            }
                            match sd.sdo_read::<[u8; 20]>(0x3100 + index, 1).await {
                                Ok(x) => tr.push(format!("sdo_read20 {c}: {}", hex(&x))),
                                Err(e) => tr.push(format!("sdo_read20 {c}: FAILED {e:?}")),
                            }
                            let v = 0x5D00_0000u32 | ((ti as u32) << 8) | c as u32;
                            match sd.sdo_write(0x3200 + index, 1, v).await {
                                Ok(()) => tr.push(format!("sdo_write {c}: ok")),
                                Err(e) => tr.push(format!("sdo_write {c}: FAILED {e:?}")),
                            }
                        }
                        tr
                    }));
                }
            }
        }
        let traces: Vec<Trace> = if interleaved {
            match sim.run_many(futs) {
                Ok(t) => t,
                Err(s) => return Err(format!("interleaved run: {s:?}")),
            }
        } else {
            let mut out = vec![];
            for mut f in futs {
                match sim.run_pinned(f.as_mut()) {
                    Ok(t) => out.push(t),
                    Err(s) => return Err(format!("sequential run: {s:?}")),
                }
            }
            out
        };
        // final device-side state the tasks produced (must not depend on interleaving either)
        let mut finals = vec![];
        for d in sim.net.devs.iter() {
            let mut s = String::new();
            for (i, smd) in d.desc.sms.iter().enumerate() {
                if smd.usage == 3 {
                    let l = d.desc.sm_pd_bytes(i as u8) as usize;
                    s.push_str(&hex(&d.mem[smd.start as usize..smd.start as usize + l]));
                }
            }
            s.push('|');
            s.push_str(&format!("{:?}", d.mailbox.downloads.iter().map(|x| (x.0, x.1, hex(&x.2))).collect::<Vec<_>>()));
            finals.push(s);
        }
        Ok((traces, finals, sim.frames_tx - frames0))
    })
}

fn run_case(sh: &mut Shard, case: u64, rng: &mut Rng) {
    let n = 2 + rng.usize_below(7);
    let k = 2 + rng.usize_below(2);
    let descs: Vec<DeviceDesc> = (0..n).map(|_| device(rng)).collect();
    // tasks: one cycle task per used group (at most), register tasks and SDO tasks on distinct devices
    let nt = 2 + rng.usize_below(3);
    let mut tasks = vec![];
    let mut used_groups = vec![];
    let mut sdo_devs: Vec<usize> = vec![];
    for t in 0..nt {
        match rng.below(3) {
            0 => {
                let free: Vec<usize> = (0..k).filter(|g| !used_groups.contains(g) && (0..n).any(|i| i % k == *g)).collect();
                if let Some(g) = free.first() {
                    used_groups.push(*g);
                    tasks.push(Task::Cycle { group: *g, n: 2 + rng.usize_below(5) });
                    continue;
                }
                tasks.push(Task::Regs { dev: rng.usize_below(n), n: 2 + rng.usize_below(4), area: 0x4000 + 0x100 * t as u16 });
            }
            1 => tasks.push(Task::Regs { dev: rng.usize_below(n), n: 2 + rng.usize_below(4), area: 0x4000 + 0x100 * t as u16 }),
            _ => {
                let free: Vec<usize> = (0..n).filter(|d| !sdo_devs.contains(d)).collect();
                if free.is_empty() {
                    tasks.push(Task::Regs { dev: rng.usize_below(n), n: 2 + rng.usize_below(4), area: 0x4000 + 0x100 * t as u16 });
                    continue;
                }
                let dev = *rng.pick(&free);
                sdo_devs.push(dev);
                tasks.push(Task::Sdo { dev, n: 1 + rng.usize_below(3), index: t as u16 });
            }
        }
    }
    let seed = rng.u64();
    let data_seed = rng.u64();
    let slots = *rng.pick(&[8usize, 16, 16]);
    let latency = *rng.pick(&[(0u64, 0u64), (0, 50), (0, 500), (100, 500)]);
    let scenario = json!({"case": case, "devices": n, "groups": k, "slots": slots, "latency_us": [latency.0, latency.1], "tasks": tasks.iter().map(|t| format!("{t:?}")).collect::<Vec<_>>()});
    sh.case(Some(fnv_mix(fnv(scenario.to_string().as_bytes()), case)));
    sh.count(&format!("tasks.{nt}"));
    sh.count(&format!("slots.{slots}"));
    let run = |inter: bool| {
        let r = std::panic::catch_unwind(std::panic::AssertUnwindSafe(|| if slots == 8 { run_scenario::<8>(&descs, k, &tasks, seed, data_seed, inter, latency) } else { run_scenario::<16>(&descs, k, &tasks, seed, data_seed, inter, latency) }));
        match r {
            Err(p) => Err(format!("PANIC:{}", p.downcast_ref::<String>().cloned().or_else(|| p.downcast_ref::<&str>().map(|s| s.to_string())).unwrap_or_default())),
            Ok(x) => x,
        }
    };
    let alone = run(false);
    let together = run(true);
    match (alone, together) {
        (Err(e), _) => sh.violation(&format!("C20:sequential-run-failed:{}", e.split(':').next().unwrap_or("")), e, scenario.clone()),
        (_, Err(e)) => sh.violation(&format!("C20:interleaved-run-failed:{}", e.split(':').next().unwrap_or("")), e, scenario.clone()),
        (Ok((ta, fa, _)), Ok((tt, ft, frames))) => {
            sh.add("frames_interleaved", frames);
            for (i, (a, t)) in ta.iter().zip(tt.iter()).enumerate() {
                sh.add("operations", a.len() as u64);
                let kind = match tasks[i] {
                    Task::Cycle { .. } => "cycle",
                    Task::Regs { .. } => "register",
                    Task::Sdo { .. } => "sdo",
                };
                sh.count(&format!("task.{kind}"));
                if let Some(f) = a.iter().find(|l| l.contains("FAILED")) {
                    sh.violation(&format!("C20:operation-fails-alone:{kind}"), f.clone(), scenario.clone());
                    continue;
                }
                if a != t {
                    let idx = (0..a.len().min(t.len())).find(|j| a[*j] != t[*j]).unwrap_or(0);
                    let failed = t.get(idx).is_some_and(|l| l.contains("FAILED"));
                    let sig = if failed { format!("C20:operation-fails-only-when-shared:{kind}") } else { format!("C20:result-differs-when-shared:{kind}") };
                    sh.violation(&sig, format!("task {i} ({:?}) step {idx}: alone -> {:?}; shared -> {:?}", tasks[i], a.get(idx), t.get(idx)), scenario.clone());
                }
            }
            if fa != ft {
                let d = (0..fa.len()).find(|i| fa[*i] != ft[*i]).unwrap_or(0);
                sh.violation("C20:device-state-differs-when-shared", format!("device {d}: alone {} ; shared {}", fa[d], ft[d]), scenario.clone());
            }
        }
    }
    if sh.wants_sample() {
        sh.sample(scenario);
    }
}
