//! C16 — no mailbox reply can crash the MainDevice or make it read out of bounds.
//!
//! The simulated device's CoE server is replaced by a byte script: whatever it is asked, it puts
//! the scripted bytes into its response mailbox (optionally refilling forever). Every SDO /
//! SDO-info entry point is run under catch_unwind with a bound on virtual time and on mailbox
//! reads, twice with different canary bytes in everything that is not the scripted response
//! (unused mailbox bytes, stale frame slot contents): differing outcomes prove a read outside
//! the response.

use ethercrab::{MainDevice, ObjectDescriptionListQuery, SubDeviceGroup};
use serde_json::json;
use vh::prng::{Rng, fnv, fnv_mix};
use vh::shard::{Args, Shard, hex};
use vh::sim::desc::*;
use vh::sim::mbx::Scripted;
use vh::sim::{Net, Sim, Stop};
use vh::simrun::*;

fn main() {
    let args = Args::parse();
    let mut sh = Shard::new("C16", &args);
    std::panic::set_hook(Box::new(|_| {}));
    let n = args.cases(2_400, 240_000);
    for i in 0..n {
        let case = args.case_id(i);
        if let Some(only) = args.only_case {
            if only != case {
                continue;
            }
        }
        let mut rng = args.rng().fork(case ^ 0xC16);
        run_case(&mut sh, case, &mut rng);
    }
    sh.finish();
}

fn mbx(len: u16, ty: u8, counter: u8, payload: &[u8]) -> Vec<u8> {
    let mut v = vec![];
    v.extend_from_slice(&len.to_le_bytes());
    v.extend_from_slice(&[0, 0, 0]);
    v.push((ty & 0x0f) | (counter << 4));
    v.extend_from_slice(payload);
    v
}

/// A well-formed reply of some kind, then mutated.
fn gen_reply(rng: &mut Rng, rs: usize) -> (String, Vec<u8>) {
    gen_reply_of(rng, rs, None)
}

fn gen_reply_of(rng: &mut Rng, rs: usize, force_kind: Option<u64>) -> (String, Vec<u8>) {
    let coe = |service: u8, body: &[u8]| {
        let mut p = ((service as u16) << 12).to_le_bytes().to_vec();
        p.extend_from_slice(body);
        p
    };
    let idx = 0x2000u16.to_le_bytes();
    let kind = force_kind.unwrap_or_else(|| rng.below(10));
    let (name, mut payload): (&str, Vec<u8>) = match kind {
        0 => ("expedited", coe(3, &[0x43, idx[0], idx[1], 1, 1, 2, 3, 4])),
        1 => {
            let n = rng.usize_below(40);
            let mut b = vec![0x41, idx[0], idx[1], 1];
            b.extend_from_slice(&(n as u32).to_le_bytes());
            b.extend(rng.bytes(n));
            ("normal", coe(3, &b))
        }
        2 => {
            let mut b = vec![0x41, idx[0], idx[1], 1];
            b.extend_from_slice(&(*rng.pick(&[0u32, 5, 64, 65, 1000, 0x7fff_ffff, 0xffff_ffff])).to_le_bytes());
            let k = rng.usize_below(12);
            b.extend(rng.bytes(k));
            ("segmented-initiate", coe(3, &b))
        }
        3 => {
            let mut b = vec![rng.u8() & 0x1f];
            b.extend(rng.bytes(7));
            ("segment", coe(3, &b))
        }
        4 => ("abort", coe(2, &[0x80, idx[0], idx[1], 1, 0, 0, 2, 6])),
        5 => ("emergency", coe(1, &rng.bytes(8))),
        6 => {
            let mut b = vec![0x02 | if rng.bool() { 0x80 } else { 0 }, 0];
            b.extend_from_slice(&rng.u16().to_le_bytes());
            b.extend_from_slice(&1u16.to_le_bytes());
            let k = rng.usize_below(30) & !1;
            b.extend(rng.bytes(k));
            ("sdo-info-list", coe(8, &b))
        }
        7 => ("download-response", coe(3, &[0x60, idx[0], idx[1], 1, 0, 0, 0, 0])),
        8 => {
            // a normal upload response whose "complete size" field and the amount of data really
            // present (and announced by the mailbox length) contradict each other
            let complete = rng.below(40) as u32;
            let present = rng.usize_below(rs.saturating_sub(16).max(1) + 1);
            let mut b = vec![0x41, idx[0], idx[1], 1];
            b.extend_from_slice(&complete.to_le_bytes());
            b.extend(rng.bytes(present));
            ("normal-size-contradicts-data", coe(3, &b))
        }
        _ => {
            let k = rng.usize_below(rs + 8);
            ("random", rng.bytes(k))
        }
    };
    let mut len = payload.len() as u16;
    let mut ty = 3u8;
    let mut counter = 1 + rng.below(7) as u8;
    let mut tag = String::from(name);
    // field mutations
    for _ in 0..rng.usize_below(3) {
        match rng.below(10) {
            0 => {
                len = rng.edgy(0, 0xffff) as u16;
                tag.push_str("+len");
            }
            1 => {
                len = *rng.pick(&[0u16, 1, 2, 3, 7, 8, 9, 10, 11, rs as u16, rs as u16 + 1, 0x7fff]);
                tag.push_str("+len-edge");
            }
            2 => {
                ty = rng.below(16) as u8;
                tag.push_str("+type");
            }
            3 => {
                counter = rng.below(8) as u8;
                tag.push_str("+counter");
            }
            4 => {
                if payload.len() >= 2 {
                    payload[1] = (payload[1] & 0x0f) | ((rng.below(16) as u8) << 4);
                    tag.push_str("+service");
                }
            }
            5 => {
                if payload.len() >= 3 {
                    payload[2] = rng.u8();
                    tag.push_str("+command");
                }
            }
            6 => {
                if payload.len() >= 6 {
                    payload[3] ^= rng.u8();
                    payload[5] ^= rng.u8();
                    tag.push_str("+object");
                }
            }
            7 => {
                let cut = rng.usize_below(payload.len() + 1);
                payload.truncate(cut);
                tag.push_str("+truncate");
            }
            8 => {
                if payload.len() >= 10 {
                    let v = *rng.pick(&[0u32, 1, 3, 4, 5, 0x100, 0xffff, 0x1_0000, 0xffff_fffe]);
                    payload[6..10].copy_from_slice(&v.to_le_bytes());
                    tag.push_str("+complete-size");
                }
            }
            _ => {
                let i = rng.usize_below(payload.len().max(1));
                if i < payload.len() {
                    payload[i] = rng.u8();
                    tag.push_str("+byte");
                }
            }
        }
    }
    (tag, mbx(len, ty, counter, &payload))
}

/// Directed family: a *valid* initiate response of a segmented upload (so that the segment loop is
/// really entered) followed by upload-segment responses whose mailbox length, "unused bytes" field,
/// toggle and last-segment flag take every kind of value, also contradictory ones.
fn gen_segment_session(rng: &mut Rng, rs: usize) -> Vec<(String, Vec<u8>)> {
    let idx = 0x2000u16.to_le_bytes();
    let complete = 8 + rng.usize_below(57); // fits the [u8; 64] destination
    let first = rng.usize_below((rs.saturating_sub(16)).min(complete.saturating_sub(1)) + 1);
    let mut b = vec![0x00, 0x30, 0x41, idx[0], idx[1], 1];
    b.extend_from_slice(&(complete as u32).to_le_bytes());
    b.extend(rng.bytes(first));
    let mut out = vec![("segmented-initiate-valid".to_string(), mbx(b.len() as u16, 3, 1 + rng.below(7) as u8, &b))];
    let mut toggle = 0u8;
    for _ in 0..1 + rng.usize_below(3) {
        let data = rng.usize_below(12);
        let unused = rng.below(8) as u8;
        let last = rng.chance(1, 3) as u8;
        let t = if rng.chance(1, 6) { toggle ^ 1 } else { toggle };
        let mut p = vec![0x00, 0x30, (t << 4) | (unused << 1) | last];
        p.extend(rng.bytes(data));
        // the length field: what is there, the 10 byte minimum form, or any small / contradictory value
        let len = match rng.below(4) {
            0 => p.len() as u16,
            1 => 10,
            2 => rng.below(14) as u16,
            _ => *rng.pick(&[0u16, 1, 2, 3, 4, 9, 11, rs as u16, rs as u16 + 1, 0xffff]),
        };
        out.push((format!("segment-in-session+len{len}+unused{unused}"), mbx(len, 3, 1 + rng.below(7) as u8, &p)));
        toggle ^= 1;
    }
    out
}

fn run_case(sh: &mut Shard, case: u64, rng: &mut Rng) {
    let session = rng.chance(1, 4);
    // directed family: SDO information requests against tiny response mailboxes (the list-type word
    // and the fragment data may be partly or wholly missing)
    let info_session = !session && rng.chance(1, 6);
    let rs = if info_session { *rng.pick(&[8u16, 10, 11, 12, 13, 14, 15, 16, 18]) } else if session { *rng.pick(&[16u16, 17, 24, 32, 64, 128]) } else { *rng.pick(&[6u16, 8, 10, 12, 13, 14, 15, 16, 17, 24, 32, 64, 128, 256, 1024]) };
    let ws = *rng.pick(&[16u16, 24, 64, 256]);
    let mut d = DeviceDesc::simple("MBX");
    d.mailbox = Some((0x1000, ws, 0x1400, rs));
    d.mailbox_protocols = MBX_COE;
    d.sms = vec![SmDesc { start: 0x1000, len: ws, control: 0x26, enable: 1, usage: 1 }, SmDesc { start: 0x1400, len: rs, control: 0x22, enable: 1, usage: 2 }];
    let nreplies = 1 + rng.usize_below(3);
    // a third of the SDO-info family: the device sends "more fragments follow" for ever, without any
    // list data and with a fragments-left field that never counts down
    let endless_info = info_session && rng.chance(1, 30);
    let replies: Vec<(String, Vec<u8>)> = if endless_info {
        let fl = (1 + rng.below(0xffff)) as u16;
        let mut p = vec![0x00, 0x80, 0x82, 0x00];
        p.extend_from_slice(&fl.to_le_bytes());
        p.extend_from_slice(&1u16.to_le_bytes());
        vec![("sdo-info-endless-empty-fragments".to_string(), mbx(p.len() as u16, 3, 1 + rng.below(7) as u8, &p))]
    } else if info_session { (0..nreplies).map(|_| gen_reply_of(rng, rs as usize, Some(6))).collect() } else if session { gen_segment_session(rng, rs as usize) } else { (0..nreplies).map(|_| gen_reply(rng, rs as usize)).collect() };
    let refill = endless_info || rng.chance(1, 4);
    let entry = if info_session { 3 + rng.below(2) } else if session { *rng.pick(&[1u64, 1, 5]) } else { rng.below(7) };
    if info_session {
        sh.count("family.sdo-info-tiny-mailbox");
    }
    let entry_name = ["sdo_read_u32", "sdo_read_64", "sdo_write", "sdo_info_list", "sdo_info_quantities", "sdo_read_vec24", "sdo_read_string10"][entry as usize];
    let seed = rng.u64();
    let tags: Vec<String> = replies.iter().map(|r| r.0.clone()).collect();
    let scenario = json!({"case": case, "entry": entry_name, "read_mbx": rs, "refill_forever": refill, "replies": replies.iter().map(|r| format!("{}:{}", r.0, hex(&r.1))).collect::<Vec<_>>()});
    sh.case(Some(fnv_mix(fnv(scenario.to_string().as_bytes()), case)));
    sh.count(&format!("entry.{entry_name}"));
    for t in &tags {
        sh.count(&format!("reply.{}", t.split('+').next().unwrap()));
        if t.contains('+') {
            sh.count("reply.mutated");
        }
    }
    if refill {
        sh.count("device_refills_forever");
    }

    let mut outcomes: Vec<String> = vec![];
    for canary in [0x00u8, 0xA5] {
        let raw: Vec<Vec<u8>> = replies.iter().map(|r| r.1.clone()).collect();
        let d2 = d.clone();
        let r = big_stack(move || {
            std::panic::catch_unwind(std::panic::AssertUnwindSafe(|| {
                let mut net = Net::chain(vec![d2]);
                net.devs[0].desc.ram_bytes = 0x4000;
                with_sim(net, seed, &MdCfg::default(), |md: &MainDevice, sim: &mut Sim| {
                    let g: SubDeviceGroup<2, 8> = match sim.run(md.init_single_group::<2, 8>(|| 0)) {
                        Ok(Ok(g)) => g,
                        other => return format!("init-failed: {:?}", other.map(|r| r.map(|_| ()))),
                    };
                    let sd = g.subdevice(md, 0).unwrap();
                    // stale frame slot contents: 16 big reads of canary-filled RAM
                    for b in sim.net.devs[0].mem[0x2000..0x2400].iter_mut() {
                        *b = canary;
                    }
                    for _ in 0..17 {
                        let _ = sim.run(ethercrab::Command::fprd(0x1000, 0x2000).receive_slice(md, 1000));
                    }
                    // the unused part of the mailbox buffer belongs to the datagram ethercrab asked
                    // for, so it is the same in both runs: only what lies outside the datagram differs
                    sim.net.devs[0].mailbox.fill = 0x5a;
                    sim.net.devs[0].mailbox.script = Some(Scripted::Raw(raw));
                    sim.net.devs[0].mailbox.script_refill = refill;
                    sim.max_iters = sim.iters + 3_000_000;
                    let reads0 = sim.net.devs[0].mailbox.reads_taken;
                    let t0 = vh::vclock::now();
                    let flat = |r: Result<Result<String, ethercrab::error::Error>, Stop>| match r {
                        Ok(Ok(s)) => format!("ok:{s}"),
                        Ok(Err(e)) => format!("err:{e:?}"),
                        Err(Stop::Stuck) => "STUCK".to_string(),
                        Err(Stop::Budget) => "BUDGET".to_string(),
                    };
                    let out = match entry {
                        0 => flat(sim.run(sd.sdo_read::<u32>(0x2000, 1)).map(|r| r.map(|v| format!("{v:#x}")))),
                        1 => flat(sim.run(sd.sdo_read::<[u8; 64]>(0x2000, 1)).map(|r| r.map(|v| hex(&v)))),
                        // variable-length destinations: whatever the device claims, at most the capacity may arrive
                        5 => flat(sim.run(sd.sdo_read::<heapless::Vec<u8, 24>>(0x2000, 1)).map(|r| r.map(|v| hex(&v)))),
                        6 => flat(sim.run(sd.sdo_read::<heapless::String<10>>(0x2000, 1)).map(|r| r.map(|v| v.to_string()))),
                        2 => flat(sim.run(sd.sdo_write(0x2000, 1, 0x1234u16)).map(|r| r.map(|_| "written".into()))),
                        3 => flat(sim.run(sd.sdo_info_object_description_list(ObjectDescriptionListQuery::All)).map(|r| r.map(|v| format!("{:?}", v.map(|l| (l.len(), l.iter().take(8).copied().collect::<Vec<_>>())))))),
                        _ => flat(sim.run(sd.sdo_info_object_quantities()).map(|r| r.map(|v| format!("{v:?}")))),
                    };
                    let reads = sim.net.devs[0].mailbox.reads_taken - reads0;
                    let dt = vh::vclock::now() - t0;
                    format!("{out}|reads={reads}|dt={dt}")
                })
            }))
        });
        let text = match r {
            Err(_) => "THREAD-DIED".to_string(),
            Ok(Err(p)) => {
                let msg = p.downcast_ref::<String>().cloned().or_else(|| p.downcast_ref::<&str>().map(|s| s.to_string())).unwrap_or_default();
                format!("PANIC:{msg}")
            }
            Ok(Ok(s)) => s,
        };
        outcomes.push(text);
    }
    let o = &outcomes[0];
    let main_kind = tags[0].split('+').next().unwrap().to_string();
    if o.starts_with("PANIC:") {
        let msg = &o[6..];
        let cls: String = msg.chars().filter(|c| !c.is_ascii_digit()).take(44).collect();
        sh.violation(&format!("C16:panic:{entry_name}:{}", cls.trim().replace(' ', "-").replace('\n', "")), format!("{msg}; first reply kind {main_kind}"), scenario.clone());
    } else if o == "THREAD-DIED" {
        sh.violation(&format!("C16:abort:{entry_name}"), "the worker thread died (stack overflow or abort)".into(), scenario.clone());
    } else if o.starts_with("init-failed") {
        sh.violation("C16:init-failed", o.clone(), scenario.clone());
    } else {
        let mut parts = o.split('|');
        let res = parts.next().unwrap_or("");
        let reads: u64 = parts.next().and_then(|p| p.strip_prefix("reads=")).and_then(|p| p.parse().ok()).unwrap_or(0);
        let dt: u64 = parts.next().and_then(|p| p.strip_prefix("dt=")).and_then(|p| p.parse().ok()).unwrap_or(0);
        sh.max("mailbox_reads_per_call", reads);
        sh.max("virtual_us_per_call", dt);
        if res == "BUDGET" || res == "STUCK" || reads > 70_000 {
            sh.violation(&format!("C16:does-not-end:{entry_name}"), format!("{res} after {reads} mailbox reads, {dt} us of virtual time; refill {refill}"), scenario.clone());
        } else if res.starts_with("ok:") {
            sh.count("outcome.value");
        } else {
            sh.count("outcome.error");
        }
        // non-interference
        let strip = |s: &str| s.split('|').next().unwrap_or("").to_string();
        if strip(&outcomes[0]) != strip(&outcomes[1]) && !outcomes[1].starts_with("PANIC") {
            sh.violation(&format!("C16:reads-outside-response:{entry_name}"), format!("canary 0x00 -> {} ; canary 0xA5 -> {}", strip(&outcomes[0]), strip(&outcomes[1])), scenario.clone());
        }
    }
    if sh.wants_sample() {
        sh.sample(json!({"scenario": scenario, "outcome": outcomes[0].chars().take(200).collect::<String>()}));
    }
}
