//! C13 — no EEPROM content can hang or crash the MainDevice.
//!
//! Arbitrary / structured-then-mutated / adversarial images are fed to every EEPROM-derived query
//! (through the cfg-gated probe with an in-memory provider that counts accesses) and to full
//! initialisation + configuration on a simulated device carrying the image. `catch_unwind` + an
//! access budget (70 000 provider accesses, more than one full pass over the 64 Ki-word address
//! space) decide; the binary is run as a debug build (overflow checks on) and as a release build.

use ethercrab::verif::eeprom::EepromProbe;
use ethercrab::{MainDevice, SubDeviceGroup};
use serde_json::json;
use std::panic::{AssertUnwindSafe, catch_unwind};
use vh::memeeprom::{MemEeprom, now_or_never};
use vh::prng::{Rng, fnv, fnv_mix};
use vh::shard::{Args, Shard, hex};
use vh::sim::desc::*;
use vh::sim::{Net, Sim, Stop};
use vh::simrun::*;

fn main() {
    let args = Args::parse();
    let mut sh = Shard::new("C13", &args);
    std::panic::set_hook(Box::new(|info| {
        let loc = info.location().map(|l| format!("{}:{}", l.file(), l.line())).unwrap_or_default();
        LAST_PANIC_AT.with(|c| *c.borrow_mut() = loc);
    }));
    let n = args.cases(20_000, 2_000_000);
    for i in 0..n {
        let case = args.case_id(i);
        if let Some(only) = args.only_case {
            if only != case {
                continue;
            }
        }
        let mut rng = args.rng().fork(case ^ 0xC13);
        let (kind, image) = gen_image(&mut rng, case);
        sh.count(&format!("image.{kind}"));
        let trivial = image.iter().all(|b| *b == 0) || image.iter().all(|b| *b == 0xff);
        sh.case(if trivial { None } else { Some(fnv_mix(fnv(&image), image.len() as u64)) });
        let chunk = if rng.bool() { 4 } else { 8 };
        probe_queries(&mut sh, case, kind, &image, chunk);
        if (rng.chance(1, 40) || kind == "pdo-sum-near-u16-max") && args.extra_u64("no-init", 0) == 0 {
            init_on_device(&mut sh, case, kind, &image, &mut rng);
        }
        if sh.wants_sample() && kind != "random" && case > 3 {
            sh.sample(json!({"case": case, "kind": kind, "len": image.len(), "head": hex(&image[..96.min(image.len())])}));
        }
    }
    sh.finish();
}

thread_local! {
    static LAST_PANIC_AT: std::cell::RefCell<String> = const { std::cell::RefCell::new(String::new()) };
}

fn last_panic_at() -> String {
    LAST_PANIC_AT.with(|c| c.borrow().clone())
}

fn put16(v: &mut [u8], byte: usize, val: u16) {
    if byte + 1 < v.len() {
        v[byte..byte + 2].copy_from_slice(&val.to_le_bytes());
    }
}

/// Byte offsets of the category headers of a well-formed image.
fn category_headers(img: &[u8]) -> Vec<usize> {
    let mut out = vec![];
    let mut p = 0x80;
    while p + 4 <= img.len() {
        let ty = u16::from_le_bytes([img[p], img[p + 1]]);
        let len = u16::from_le_bytes([img[p + 2], img[p + 3]]) as usize;
        out.push(p);
        if ty == 0xffff {
            break;
        }
        p += 4 + len * 2;
    }
    out
}

fn gen_image(rng: &mut Rng, case: u64) -> (&'static str, Vec<u8>) {
    let base = |rng: &mut Rng| {
        let opts = GenOpts { max_strings: 12, max_string_len: 60, max_pdos: 10, max_entries: 10, mailbox: true, nasty_strings: true, max_sms: 8 };
        let d = gen_desc(rng, &opts);
        build_sii(&d)
    };
    let _ = case;
    match rng.below(20) {
        0 => {
            let n = *rng.pick(&[0usize, 1, 3, 16, 127, 128, 129, 200, 1024, 4096]);
            ("random", rng.bytes(n))
        }
        1 => ("blank-zero", vec![0u8; *rng.pick(&[128usize, 256, 2048, 131072])]),
        2 => ("blank-ones", vec![0xffu8; *rng.pick(&[128usize, 256, 2048, 131072])]),
        3 => {
            // a category whose length is 0xFFFF (or near)
            let mut img = base(rng);
            let hs = category_headers(&img);
            let h = *rng.pick(&hs);
            put16(&mut img, h + 2, *rng.pick(&[0xffffu16, 0xfffe, 0x8000, 0x7fff, 0xffc0]));
            ("category-len-ffff", img)
        }
        4 => {
            // wrap-to-self chain: a category at word w with length such that the next header is
            // the same header again (w + 2 + len == w mod 2^16)
            let mut img = base(rng);
            let hs = category_headers(&img);
            let h = *rng.pick(&hs);
            put16(&mut img, h, *rng.pick(&[1u16, 5, 9, 0x0800]));
            put16(&mut img, h + 2, 0xfffe);
            ("wrap-to-self", img)
        }
        5 => {
            // chain that wraps around the address space and lands on an earlier category
            let mut img = base(rng);
            img.resize(131072, 0);
            let hs = category_headers(&img);
            let h = hs[rng.usize_below(hs.len().min(3))];
            let word = (h / 2) as u16;
            // next = word + 2 + len  => choose len so that next == 0x40
            put16(&mut img, h, 0x0800);
            put16(&mut img, h + 2, 0x40u16.wrapping_sub(word).wrapping_sub(2));
            ("wrap-to-earlier", img)
        }
        6 => {
            let mut img = base(rng);
            put16(&mut img, 0x3e * 2, *rng.pick(&[511u16, 512, 0x7fff, 0xfffe, 0xffff]));
            ("size-word-large", img)
        }
        7 => {
            // string index one past the table / far past
            let opts = GenOpts { max_strings: 4, ..Default::default() };
            let mut d = gen_desc(rng, &opts);
            d.has_general = true;
            let ns = d.strings.len() as u8;
            d.order_idx = ns.wrapping_add(*rng.pick(&[1u8, 2, 200]));
            d.name_idx = ns.wrapping_add(1);
            ("string-index-past-table", build_sii(&d))
        }
        8 => {
            // 255 x 255-bit PDO entries on one SM, several such PDOs
            let mut d = DeviceDesc::simple("BIG");
            d.sms = vec![SmDesc { start: 0x1000, len: 0, control: 0x20, enable: 1, usage: 4 }, SmDesc { start: 0x1800, len: 0, control: 0x64, enable: 1, usage: 3 }];
            for k in 0..(1 + rng.usize_below(6)) {
                let tx = rng.bool();
                d.pdos.push(PdoDesc { index: 0x1a00 + k as u16, sm: if tx { 0 } else { 1 }, tx, entries: (0..255).map(|e| PdoEntryDesc { index: 0x6000, sub: e as u8, bits: 255 }).collect() });
            }
            d.eeprom_bytes = 32768;
            ("pdo-255x255", build_sii(&d))
        }
        9 => {
            let mut img = base(rng);
            let cut = rng.usize_below(img.len());
            img.truncate(cut);
            ("truncated", img)
        }
        10 | 11 => {
            // random byte mutations of a good image
            let mut img = base(rng);
            let end = category_headers(&img).last().copied().unwrap_or(0x80) + 8;
            for _ in 0..1 + rng.usize_below(8) {
                let i = rng.usize_below(end.min(img.len()));
                img[i] = *rng.pick(&[0u8, 0xff, 0x80, 0x7f, 1]) ^ if rng.bool() { rng.u8() } else { 0 };
            }
            ("mutated-bytes", img)
        }
        12 => {
            // every category header gets a random length
            let mut img = base(rng);
            for h in category_headers(&img) {
                if rng.bool() {
                    put16(&mut img, h + 2, rng.edgy(0, 0xffff) as u16);
                }
            }
            ("random-category-lengths", img)
        }
        13 => {
            // string table with lying lengths
            let mut img = base(rng);
            let hs = category_headers(&img);
            for h in hs {
                if u16::from_le_bytes([img[h], img[h + 1]]) == 10 && h + 6 < img.len() {
                    img[h + 4] = rng.u8();
                    img[h + 5] = *rng.pick(&[0xffu8, 0xfe, 0x80, 0]);
                }
            }
            ("string-table-lies", img)
        }
        14 => {
            // no end marker: categories run into 0xff / zero fill at the very end of a full-size image
            let mut img = base(rng);
            if let Some(e) = category_headers(&img).last().copied() {
                put16(&mut img, e, 0x0005);
                put16(&mut img, e + 2, 0x0000);
            }
            img.resize(*rng.pick(&[2048usize, 131072]), *rng.pick(&[0u8, 0xff]));
            ("no-end-marker", img)
        }
        15 | 16 => {
            // the chain's next header lies at the very top of the 16 bit word address space
            // (0xfffc..=0xffff), where `address + 2` and `address + 2 + length` leave it; the header
            // found there continues the chain in various ways (back to 0x40, to itself, nowhere)
            let mut img = base(rng);
            img.resize(131072, *rng.pick(&[0u8, 0xff, 0x01]));
            let hs = category_headers(&img);
            let h = hs[rng.usize_below(hs.len().min(3))];
            let word = (h / 2) as u16;
            let top = *rng.pick(&[0xfffeu16, 0xfffe, 0xffff, 0xfffd, 0xfffc]);
            put16(&mut img, h, *rng.pick(&[0x0800u16, 1, 5]));
            put16(&mut img, h + 2, top.wrapping_sub(word).wrapping_sub(2));
            let t = top as usize * 2;
            if t + 2 <= img.len() {
                put16(&mut img, t, *rng.pick(&[0x0800u16, 1, 0, 30, 10, 41]));
            }
            if t + 4 <= img.len() {
                put16(&mut img, t + 2, *rng.pick(&[0x0040u16, 0x0040, 0x003e, 0x0041, 0, 1, 2, 0xfffe, 0xffff, 0x8000]));
            }
            ("next-header-at-top-of-address-space", img)
        }
        18 => {
            // process data of one sync manager adding up to 65529..=65535 bits (and just above):
            // the last values a u16 bit count can hold, where "+ 7" for the byte rounding overflows
            let mut d = DeviceDesc::simple("EDGE");
            d.sms = vec![SmDesc { start: 0x1000, len: 0, control: 0x20, enable: 1, usage: 4 }, SmDesc { start: 0x3000, len: 0, control: 0x64, enable: 1, usage: 3 }];
            d.fmmus = vec![2, 1];
            let tx = rng.bool();
            let sm = if tx { 0 } else { 1 };
            let target: u32 = *rng.pick(&[65529u32, 65530, 65531, 65532, 65533, 65534, 65535, 65536, 65528, 65527]);
            let mut left = target;
            let mut k = 0u16;
            while left > 0 {
                let mut entries = vec![];
                while left > 0 && entries.len() < 255 {
                    let b = left.min(255);
                    entries.push(PdoEntryDesc { index: 0x6000 + k, sub: entries.len() as u8, bits: b as u8 });
                    left -= b;
                }
                d.pdos.push(PdoDesc { index: if tx { 0x1a00 } else { 0x1600 } + k, sm, tx, entries });
                k += 1;
            }
            d.eeprom_bytes = 16384;
            ("pdo-sum-near-u16-max", build_sii(&d))
        }
        17 => {
            // a strings category that is present but says it holds no strings (or fewer than are
            // looked up), with non-zero string indices in the general category
            let opts = GenOpts { max_strings: 4, ..Default::default() };
            let mut d = gen_desc(rng, &opts);
            d.has_general = true;
            if d.strings.is_empty() {
                d.strings.push(b"x".to_vec());
            }
            d.order_idx = 1 + rng.below(3) as u8;
            d.name_idx = 1 + rng.below(3) as u8;
            d.group_idx = 1;
            let mut img = build_sii(&d);
            for h in category_headers(&img) {
                if u16::from_le_bytes([img[h], img[h + 1]]) == 10 && h + 5 < img.len() {
                    img[h + 4] = *rng.pick(&[0u8, 0, 0, 1]);
                }
            }
            ("string-table-count-zero", img)
        }
        _ => {
            // headers with all-equal type searched for, zero length (empty categories)
            let mut img = vec![0u8; 0x80];
            for _ in 0..rng.usize_below(64) {
                img.extend_from_slice(&rng.pick(&[10u16, 30, 40, 41, 42, 50, 51, 1]).to_le_bytes());
                img.extend_from_slice(&0u16.to_le_bytes());
            }
            img.extend_from_slice(&[0xff; 4]);
            ("empty-categories", img)
        }
    }
}

fn panic_class(p: &Box<dyn std::any::Any + Send>) -> String {
    let msg = p.downcast_ref::<String>().cloned().or_else(|| p.downcast_ref::<&str>().map(|s| s.to_string())).unwrap_or_else(|| "?".into());
    let cls: String = msg.chars().filter(|c| !c.is_ascii_digit()).take(48).collect();
    cls.trim().replace(' ', "-")
}

fn probe_queries(sh: &mut Shard, case: u64, kind: &str, image: &[u8], chunk: usize) {
    let mem = MemEeprom::new(image.to_vec(), chunk);
    let p = EepromProbe::new(mem.clone());
    macro_rules! q {
        ($name:expr, $e:expr) => {{
            mem.reset_counter();
            let r = catch_unwind(AssertUnwindSafe(|| now_or_never($e).map(|_| ()).map_err(|e| format!("{e:?}"))));
            sh.count(concat!("query.", $name));
            sh.max("provider_accesses", mem.accesses.get());
            match r {
                Err(pn) => {
                    let cls = panic_class(&pn);
                    sh.violation(&format!("C13:panic:{}:{cls}", $name), format!("at {}; image kind {kind}, chunk {chunk}, {} build", last_panic_at(), if cfg!(debug_assertions) { "debug" } else { "release" }), json!({"case": case, "image": hex(&image[..image.len().min(600)])}));
                }
                Ok(res) => {
                    if mem.over_budget() {
                        sh.violation(&format!("C13:unbounded-walk:{}", $name), format!("more than {} provider accesses; image kind {kind}, chunk {chunk}, {} build, result {res:?}", mem.budget, if cfg!(debug_assertions) { "debug" } else { "release" }), json!({"case": case, "image": hex(&image[..image.len().min(600)])}));
                    } else {
                        sh.count(if res.is_ok() { "outcome.value" } else { "outcome.error" });
                    }
                }
            }
        }};
    }
    q!("identity", p.identity());
    q!("size", p.size());
    q!("name", p.device_name());
    q!("description", p.description());
    q!("mailbox", p.mailbox_config());
    q!("general", p.general());
    q!("sync_managers", p.sync_managers());
    q!("fmmus", p.fmmus());
    q!("fmmu_ex", p.fmmu_mappings());
    q!("tx_pdos", p.pdos(true));
    q!("rx_pdos", p.pdos(false));
    for i in [0u8, 1, 2, 3, 7, 100, 255] {
        q!("string", p.find_string(i));
    }
    q!("alias", p.station_alias());
    let mut buf = [0u8; 33];
    q!("read_raw", p.read_raw(0xfff8, &mut buf));
    q!("read_raw", p.read_raw(0x7fff, &mut buf));
    q!("read_raw", p.read_raw(0xffff, &mut buf));
}

fn init_on_device(sh: &mut Shard, case: u64, kind: &str, image: &[u8], rng: &mut Rng) {
    let mut net = Net::chain(vec![DeviceDesc::simple("X")]);
    net.devs[0].eeprom = image.to_vec();
    net.devs[0].desc.sii_read8 = rng.bool();
    // an ESC with a mailbox-less, permissive application: state changes always succeed
    let seed = rng.u64();
    let r = catch_unwind(AssertUnwindSafe(|| {
        with_sim(net, seed, &MdCfg::default(), |md: &MainDevice, sim: &mut Sim| {
            sim.max_iters = 400_000;
            let g = sim.run(md.init_single_group::<2, 256>(|| 0));
            let g: SubDeviceGroup<2, 256> = match g {
                Ok(Ok(g)) => g,
                Ok(Err(e)) => return format!("init-err:{}", variant(&e)),
                Err(Stop::Stuck) => return "stuck".into(),
                Err(Stop::Budget) => return "budget".into(),
            };
            match sim.run(g.into_safe_op(md)) {
                Ok(Ok(_g)) => "safe-op".into(),
                Ok(Err(e)) => format!("config-err:{}", variant(&e)),
                Err(Stop::Stuck) => "stuck".into(),
                Err(Stop::Budget) => "budget".into(),
            }
        })
    }));
    sh.count("init_runs");
    match r {
        Err(pn) => {
            let cls = panic_class(&pn);
            sh.violation(&format!("C13:panic:init:{cls}"), format!("at {}; init/config on a device carrying image kind {kind}, {} build", last_panic_at(), if cfg!(debug_assertions) { "debug" } else { "release" }), json!({"case": case, "image": hex(&image[..image.len().min(600)])}));
        }
        Ok(out) => {
            sh.count(&format!("init_outcome.{}", out.split(':').next().unwrap()));
            if out == "budget" {
                sh.violation("C13:unbounded-walk:init", format!("init did not finish within the executor budget; image kind {kind}"), json!({"case": case, "image": hex(&image[..image.len().min(600)])}));
            } else if out == "stuck" {
                sh.violation("C13:init-hangs", format!("image kind {kind}"), json!({"case": case}));
            }
        }
    }
}
