//! C10 — a group's typestate never claims a state its SubDevices are not in.

use ethercrab::error::Error;
use ethercrab::{MainDevice, SubDeviceGroup, SubDeviceGroupHandle, SubDeviceState};
use serde_json::json;
use vh::prng::{Rng, fnv, fnv_mix};
use vh::shard::{Args, Shard};
use vh::sim::desc::*;
use vh::sim::device::*;
use vh::sim::{Net, Sim, Stop};
use vh::simrun::*;

#[derive(Default)]
struct Groups {
    g: [SubDeviceGroup<16, 32>; 3],
}

fn main() {
    let args = Args::parse();
    let mut sh = Shard::new("C10", &args);
    std::panic::set_hook(Box::new(|_| {}));
    let n = args.cases(640, 60_000);
    for i in 0..n {
        let case = args.case_id(i);
        if let Some(only) = args.only_case {
            if only != case {
                continue;
            }
        }
        let mut rng = args.rng().fork(case ^ 0xC10);
        run_case(&mut sh, case, &mut rng);
    }
    sh.finish();
}

fn state_code(s: SubDeviceState) -> u8 {
    match s {
        SubDeviceState::None => 0,
        SubDeviceState::Init => 1,
        SubDeviceState::PreOp => 2,
        SubDeviceState::Bootstrap => 3,
        SubDeviceState::SafeOp => 4,
        SubDeviceState::Op => 8,
        SubDeviceState::Other(n) => n,
    }
}

fn run_case(sh: &mut Shard, case: u64, rng: &mut Rng) {
    let n = 1 + rng.usize_below(16);
    let k = 1 + rng.usize_below(3);
    let descs: Vec<DeviceDesc> = (0..n).map(|_| DeviceDesc::simple("AL")).collect();
    let net = Net::chain(descs);
    // small frames force several status frames per round
    let frame_len = *rng.pick(&[58usize, 72, 100, 200, 1514]);
    let cfg = MdCfg { frame_len, dc_static_sync_iterations: 0, ..Default::default() };
    let gi = rng.usize_below(k);
    let members: Vec<usize> = (0..n).filter(|i| i % k == gi).collect();
    // which transition
    let path = rng.below(5); // 0 safe-op, 1 op (via safe-op), 2 init, 3 safe-op then pre-op, 4 request_into_op (no wait)
    let target = match path {
        0 => AL_SAFEOP,
        1 | 4 => AL_OP,
        2 => AL_INIT,
        _ => AL_PREOP,
    };
    // per-member reactions for the final target state
    let mut reactions: Vec<(usize, AlReaction)> = vec![];
    let mut any_bad = false;
    for m in &members {
        let r = match rng.below(10) {
            0 => AlReaction::Refuse(*rng.pick(&[0x0011u16, 0x001d, 0x001e, 0x0017, 0x8000])),
            1 => AlReaction::Stall,
            2 => AlReaction::AcceptThenFallBack { after: rng.below(3) as u32, then_after: rng.below(4) as u32, state: *rng.pick(&[AL_PREOP, AL_SAFEOP, AL_INIT]), code: 0x001b },
            _ => AlReaction::AcceptAfter(rng.below(6) as u32),
        };
        if !matches!(r, AlReaction::AcceptAfter(_)) {
            any_bad = true;
        }
        reactions.push((*m, r));
    }
    let seed = rng.u64();
    let scenario = json!({"case": case, "devices": n, "groups": k, "group": gi, "members": members, "path": path, "target": target, "frame_len": frame_len, "reactions": reactions.iter().map(|(m, r)| format!("{m}:{r:?}")).collect::<Vec<_>>()});
    let members2 = members.clone();
    let reactions2 = reactions.clone();
    let mix_seed = rng.u64();

    let res = std::panic::catch_unwind(std::panic::AssertUnwindSafe(|| {
        with_sim(net, seed, &cfg, |md: &MainDevice, sim: &mut Sim| {
            let mut counter = 0usize;
            let groups = match sim.run(md.init::<16, _>(|| 0, Groups::default(), |g: &Groups, _sd| {
                let i = counter % k;
                counter += 1;
                Ok(&g.g[i] as &dyn SubDeviceGroupHandle)
            })) {
                Ok(Ok(g)) => g,
                other => return Err(format!("init: {:?}", other.map(|r| r.map(|_| ())))),
            };
            let [g0, g1, g2] = groups.g;
            let mut gs = vec![Some(g0), Some(g1), Some(g2)];
            let g = gs[gi].take().unwrap();
            let marks: Vec<usize> = sim.net.devs.iter().map(|d| d.al_requests.len()).collect();
            let set_scripts = |sim: &mut Sim, st: u8| {
                for (m, r) in &reactions2 {
                    sim.net.devs[*m].al_script.on_request.insert(st, r.clone());
                }
            };
            let t0 = vh::vclock::now();
            let flat = |r: Result<Result<(), Error>, Stop>| match r {
                Ok(Ok(())) => Ok(()),
                Ok(Err(e)) => Err(format!("{e:?}")),
                Err(s) => Err(format!("{s:?}")),
            };
            let mut tx = None;
            let mut reads_at_return: Option<Vec<u16>> = None;
            let result = match path {
                0 => {
                    set_scripts(sim, AL_SAFEOP);
                    match sim.run(g.into_safe_op(md)) {
                        Ok(Ok(g)) => {
                            reads_at_return = Some(sim.net.devs.iter().map(|d| d.last_al_status_read).collect());
                            tx = Some(cycle(sim, md, &g, &members2, mix_seed));
                            Ok(())
                        }
                        Ok(Err(e)) => Err(format!("{e:?}")),
                        Err(s) => Err(format!("{s:?}")),
                    }
                }
                1 => match sim.run(g.into_safe_op(md)) {
                    Ok(Ok(g)) => {
                        set_scripts(sim, AL_OP);
                        match sim.run(g.into_op(md)) {
                            Ok(Ok(g)) => {
                                reads_at_return = Some(sim.net.devs.iter().map(|d| d.last_al_status_read).collect());
                                tx = Some(cycle(sim, md, &g, &members2, mix_seed));
                                Ok(())
                            }
                            Ok(Err(e)) => Err(format!("{e:?}")),
                            Err(s) => Err(format!("{s:?}")),
                        }
                    }
                    other => Err(format!("prefix into_safe_op: {:?}", other.map(|r| r.map(|_| ())))),
                },
                2 => {
                    set_scripts(sim, AL_INIT);
                    flat(sim.run(g.into_init(md)).map(|r| r.map(|_| ())))
                }
                3 => match sim.run(g.into_safe_op(md)) {
                    Ok(Ok(g)) => {
                        set_scripts(sim, AL_PREOP);
                        flat(sim.run(g.into_pre_op(md)).map(|r| r.map(|_| ())))
                    }
                    other => Err(format!("prefix into_safe_op: {:?}", other.map(|r| r.map(|_| ())))),
                },
                _ => match sim.run(g.into_safe_op(md)) {
                    Ok(Ok(g)) => {
                        set_scripts(sim, AL_OP);
                        flat(sim.run(g.request_into_op(md)).map(|r| r.map(|_| ())))
                    }
                    other => Err(format!("prefix into_safe_op: {:?}", other.map(|r| r.map(|_| ())))),
                },
            };
            let elapsed = vh::vclock::now() - t0;
            let reqs: Vec<Vec<u8>> = sim.net.devs.iter().zip(marks).map(|(d, m)| d.al_requests[m..].iter().map(|r| r.1).collect()).collect();
            let last_reads: Vec<u16> = reads_at_return.unwrap_or_else(|| sim.net.devs.iter().map(|d| d.last_al_status_read).collect());
            let finals: Vec<(u8, bool)> = sim.net.devs.iter().map(|d| (d.al_state, d.al_error)).collect();
            Ok((result, elapsed, reqs, last_reads, finals, tx))
        })
    }));
    sh.count(&format!("path.{}", ["into_safe_op", "into_op", "into_init", "into_pre_op", "request_into_op"][path as usize]));
    sh.count(&format!("frame_len.{frame_len}"));
    let nontrivial = n >= 2 || any_bad;
    sh.case(if nontrivial { Some(fnv_mix(fnv(scenario.to_string().as_bytes()), case)) } else { None });
    let (result, elapsed, reqs, last_reads, _finals, tx) = match res {
        Err(p) => {
            let msg = p.downcast_ref::<String>().cloned().or_else(|| p.downcast_ref::<&str>().map(|s| s.to_string())).unwrap_or_default();
            sh.violation("C10:panic", msg, scenario);
            return;
        }
        Ok(Err(e)) => {
            sh.violation("C10:init-failed", e, scenario);
            return;
        }
        Ok(Ok(v)) => v,
    };
    if let Err(e) = &result {
        if e.starts_with("prefix") {
            sh.violation("C10:prefix-transition-failed", e.clone(), scenario);
            return;
        }
    }
    // who received the request of the target state?
    let mut problems = vec![];
    for (i, r) in reqs.iter().enumerate() {
        let is_member = members.contains(&i);
        let got_target = r.contains(&target);
        if is_member && !got_target && (result.is_ok() || path == 4) {
            problems.push(format!("request-not-sent-to-member:device {i} saw requests {r:?}"));
        }
        if !is_member && !r.is_empty() {
            problems.push(format!("request-sent-to-non-member:device {i} saw requests {r:?}"));
        }
    }
    let bound = 50_000 + 2_000 + 5_000; // state_transition + pdu + slack (µs)
    match &result {
        Ok(()) => {
            sh.count("transition_ok");
            if path != 4 {
                for m in &members {
                    let reported = (last_reads[*m] & 0x0f) as u8;
                    if reported != target {
                        problems.push(format!("ok-but-member-not-in-state:device {m} last reported {reported:#x} (error bit {}), requested {target:#x}", last_reads[*m] & 0x10 != 0));
                    }
                }
            }
        }
        Err(e) => {
            sh.count("transition_err");
            sh.count(&format!("err.{}", e.split(|c: char| c == '(' || c == ' ' || c == '{').next().unwrap_or("")));
            if !any_bad && path != 4 {
                problems.push(format!("spurious-failure:all members accept but the call failed: {e}"));
            }
            if e == "Stuck" || e == "Budget" {
                problems.push(format!("transition-hangs:{e}"));
            }
            if elapsed > bound {
                problems.push(format!("late-error:returned after {elapsed} us (bound {bound})"));
            }
        }
    }
    if any_bad && result.is_ok() && path != 4 {
        // legitimate only if every member really reported the state at its last read (checked
        // above): e.g. a fall-back that had not happened yet. Count it.
        sh.count("ok_with_late_fallback_pending");
    }
    // per-cycle state list + summaries
    if let Some(tx) = tx {
        match tx {
            Err(e) => problems.push(format!("cycle-failed:{e}")),
            Ok((list, truth, all_op, single, in_state_op, gstate)) => {
                sh.count("cycles");
                if list != truth {
                    problems.push(format!("state-list:reported {list:?}, devices reported {truth:?} (group order)"));
                }
                let judged = truth.iter().all(|s| matches!(s, 0 | 1 | 2 | 4 | 8));
                if judged {
                    sh.count("summaries_judged");
                    let ref_all_op = !truth.is_empty() && truth.iter().all(|s| *s == 8);
                    let ref_single = if !truth.is_empty() && truth.iter().all(|s| *s == truth[0]) { Some(truth[0]) } else { None };
                    if all_op != ref_all_op {
                        problems.push(format!("all_op:{all_op} for reported states {truth:?}"));
                    }
                    if single != ref_single && !(truth.is_empty()) {
                        problems.push(format!("group_in_single_state:{single:?} for reported states {truth:?}"));
                    }
                    if in_state_op != ref_all_op {
                        problems.push(format!("is_in_state(Op):{in_state_op} for reported states {truth:?}"));
                    }
                    let ref_bits = truth.iter().fold(0u8, |a, s| a | s);
                    if gstate != ref_bits {
                        problems.push(format!("group_state:{gstate:#x} for reported states {truth:?}"));
                    }
                } else {
                    sh.observe("summaries_with_bootstrap_or_other", format!("{truth:?} -> all_op {all_op} single {single:?}"));
                }
            }
        }
    }
    for p in problems {
        let kind = p.split(':').next().unwrap().to_string();
        sh.violation(&format!("C10:{kind}"), p, scenario.clone());
    }
    if sh.wants_sample() && any_bad && n > 3 {
        sh.sample(scenario);
    }
}

type CycleObs = (Vec<u8>, Vec<u8>, bool, Option<u8>, bool, u8);

/// One process data cycle with some members forced into other states first.
fn cycle<'a, S>(sim: &mut Sim<'a>, md: &'a MainDevice<'a>, g: &SubDeviceGroup<16, 32, ethercrab::DefaultLock, S>, members: &[usize], seed: u64) -> Result<CycleObs, String>
where
    S: ethercrab::subdevice_group::HasPdi,
{
    let mut rng = Rng::new(seed);
    if rng.chance(2, 3) {
        for m in members {
            if rng.chance(1, 3) {
                sim.net.devs[*m].al_state = *rng.pick(&[0u8, 1, 2, 4, 8, 8, 3, 6]);
                sim.net.devs[*m].al_error = rng.chance(1, 4);
            }
        }
    }
    let r = match sim.run(g.tx_rx(md)) {
        Ok(Ok(r)) => r,
        other => return Err(format!("{:?}", other.map(|r| r.map(|_| ())))),
    };
    let list: Vec<u8> = r.subdevice_states.iter().map(|s| state_code(*s)).collect();
    let truth: Vec<u8> = members.iter().map(|m| (sim.net.devs[*m].last_al_status_read & 0x0f) as u8).collect();
    Ok((list, truth, r.all_op(), r.group_in_single_state().map(state_code), r.is_in_state(SubDeviceState::Op), r.group_state().bits()))
}
