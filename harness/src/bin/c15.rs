//! C15 — SDO transfers deliver exactly the object's bytes, whatever the transfer type.
//!
//! `SubDeviceRef::sdo_read/sdo_write/sdo_read_array/sdo_write_array` against the simulated
//! device's CoE server (ETG.1000.6 §5.6.2: expedited, normal, segmented with chosen segment
//! lengths, abort, emergency, wrong-object answers, stale out-mailbox content).

use ethercrab::error::{Error, MailboxError};
use ethercrab::{MainDevice, SubDeviceGroup};
use serde_json::json;
use vh::prng::{Rng, fnv, fnv_mix};
use vh::shard::{Args, Shard, hex};
use vh::sim::desc::*;
use vh::sim::mbx::UploadMode;
use vh::sim::{Net, Sim, Stop};
use vh::simrun::*;

const ABORTS: [(u32, &str); 10] = [
    (0x0503_0000, "ToggleBit"),
    (0x0504_0000, "SdoTimeout"),
    (0x0504_0001, "InvalidCommand"),
    (0x0601_0000, "UnsupportedAccess"),
    (0x0601_0002, "ReadOnlyWrite"),
    (0x0602_0000, "NotFound"),
    (0x0607_0010, "DataLengthMismatch"),
    (0x0609_0011, "SubIndexNotFound"),
    (0x0609_0030, "ValueOutOfRange"),
    (0x0800_0000, "General"),
];

fn main() {
    let args = Args::parse();
    let mut sh = Shard::new("C15", &args);
    std::panic::set_hook(Box::new(|_| {}));
    let n = args.cases(480, 48_000);
    for i in 0..n {
        let case = args.case_id(i);
        if let Some(only) = args.only_case {
            if only != case {
                continue;
            }
        }
        let mut rng = args.rng().fork(case ^ 0xC15);
        run_case(&mut sh, case, &mut rng);
    }
    sh.finish();
}

fn coe_device(ws: u16, rs: u16) -> DeviceDesc {
    let mut d = DeviceDesc::simple("COE");
    d.mailbox = Some((0x1000, ws, 0x1000 + ws.next_multiple_of(16), rs));
    d.mailbox_protocols = MBX_COE;
    d.sms = vec![SmDesc { start: 0x1000, len: ws, control: 0x26, enable: 1, usage: 1 }, SmDesc { start: 0x1000 + ws.next_multiple_of(16), len: rs, control: 0x22, enable: 1, usage: 2 }];
    d.coe_details = 0x2f;
    d.ram_bytes = 0x2000;
    d
}

#[derive(Debug, Clone)]
enum Op {
    Read { size: usize, dest: usize, mode: u8 },
    ReadTyped { kind: u8 },
    Write { size: usize },
    Abort { code: usize, write: bool },
    Emergency,
    WrongObject,
    ReadArray { n: usize },
    WriteArray { n: usize },
    StaleThenRead { size: usize },
}

type R = Result<Result<Vec<u8>, Error>, Stop>;

macro_rules! read_n {
    ($sim:expr, $sd:expr, $idx:expr, $sub:expr, $dest:expr, [$($n:literal),*]) => {{
        match $dest {
            $($n => $sim.run($sd.sdo_read::<[u8; $n]>($idx, $sub)).map(|r| r.map(|v| v.to_vec())),)*
            other => panic!("harness: no destination of {other} bytes"),
        }
    }};
}

const DESTS: [usize; 24] = [1, 2, 3, 4, 5, 6, 7, 8, 9, 10, 13, 14, 15, 16, 17, 31, 32, 33, 64, 100, 128, 255, 256, 512];

fn run_case(sh: &mut Shard, case: u64, rng: &mut Rng) {
    let ws = *rng.pick(&[16u16, 24, 32, 64, 128, 256, 512, 1024]);
    let rs = *rng.pick(&[16u16, 17, 20, 24, 32, 48, 64, 128, 256, 512, 1024]);
    let d = coe_device(ws, rs);
    let net = Net::chain(vec![d]);
    let seed = rng.u64();
    // a short session of operations on one device (mailbox counters must keep cycling)
    let nops = 3 + rng.usize_below(8);
    let ops: Vec<Op> = (0..nops)
        .map(|_| match rng.below(16) {
            0..=6 => {
                let dest = *rng.pick(&DESTS);
                let size = match rng.below(8) {
                    0 => dest + 1 + rng.usize_below(8),
                    1 => dest.saturating_sub(1 + rng.usize_below(3)),
                    _ => dest,
                };
                Op::Read { size: size.min(512), dest, mode: rng.below(5) as u8 }
            }
            7 => Op::ReadTyped { kind: rng.below(6) as u8 },
            8 | 9 => Op::Write { size: 1 + rng.usize_below(4) },
            10 => Op::Abort { code: rng.usize_below(ABORTS.len()), write: rng.bool() },
            11 => Op::Emergency,
            12 => Op::WrongObject,
            13 => Op::ReadArray { n: rng.usize_below(6) },
            14 => Op::WriteArray { n: rng.usize_below(5) },
            _ => Op::StaleThenRead { size: *rng.pick(&[1usize, 4, 9, 40]) },
        })
        .collect();
    let scenario = json!({"case": case, "write_mbx": ws, "read_mbx": rs, "ops": ops.iter().map(|o| format!("{o:?}")).collect::<Vec<_>>()});
    let data_seed = rng.u64();
    let ops2 = ops.clone();

    let res = std::panic::catch_unwind(std::panic::AssertUnwindSafe(|| {
        with_sim(net, seed, &MdCfg::default(), |md: &MainDevice, sim: &mut Sim| {
            let g: SubDeviceGroup<2, 8> = match sim.run(md.init_single_group::<2, 8>(|| 0)) {
                Ok(Ok(g)) => g,
                other => return Err(format!("init: {:?}", other.map(|r| r.map(|_| ())))),
            };
            let sd = g.subdevice(md, 0).unwrap();
            let mut drng = Rng::new(data_seed);
            let mut out: Vec<(String, Vec<String>)> = vec![];
            let first_req = sim.net.devs[0].mailbox.received.len();
            for (k, op) in ops2.iter().enumerate() {
                let idx = 0x2000 + k as u16;
                let mut problems = vec![];
                let tag;
                match op {
                    Op::Read { size, dest, mode } => {
                        let data = drng.bytes(*size);
                        sim.net.devs[0].mailbox.od.insert((idx, 1), data.clone());
                        let rsz = rs as usize;
                        let um = match mode {
                            0 | 1 => UploadMode::Auto,
                            2 => UploadMode::ForceNormal,
                            3 => UploadMode::ForceSegmented { first: drng.usize_below(rsz.saturating_sub(16) + 1), seg: 1 + drng.usize_below(12) },
                            _ => UploadMode::ForceSegmented { first: 0, seg: *drng.pick(&[1usize, 6, 7, 8, 100]) },
                        };
                        let fits_normal = *size <= rsz.saturating_sub(16);
                        let kind = if *size <= 4 && *size > 0 && um == UploadMode::Auto { "expedited" } else if matches!(um, UploadMode::ForceSegmented { .. }) && *size > 0 || !fits_normal { "segmented" } else { "normal" };
                        tag = format!("read:{kind}");
                        sim.net.devs[0].mailbox.upload_mode = um;
                        let r: R = read_n!(sim, sd, idx, 1u8, *dest, [1, 2, 3, 4, 5, 6, 7, 8, 9, 10, 13, 14, 15, 16, 17, 31, 32, 33, 64, 100, 128, 255, 256, 512]);
                        sim.net.devs[0].mailbox.upload_mode = UploadMode::Auto;
                        match r {
                            Err(s) => problems.push(format!("hang:{s:?}")),
                            Ok(res) => {
                                if size == dest {
                                    match res {
                                        Ok(v) if v == data => {}
                                        Ok(v) => problems.push(format!("wrong-bytes:{kind}:object {} read {}", hex(&data), hex(&v))),
                                        Err(e) => problems.push(format!("read-failed:{kind}:{}: object of {size} bytes, destination {dest} bytes, mailbox {rs}: {e:?}", variant(&e))),
                                    }
                                } else if size > dest {
                                    match res {
                                        Err(Error::Mailbox(MailboxError::TooLong { address, sub_index })) => {
                                            if (address, sub_index) != (idx, 1) {
                                                problems.push(format!("too-long-wrong-object:{address:#x}:{sub_index}"));
                                            }
                                        }
                                        Ok(v) if kind == "expedited" => {
                                            // not judged (the statement names normal and segmented)
                                            let _ = v;
                                        }
                                        other => problems.push(format!("oversize-not-too-long:{kind}:object {size} bytes into {dest}: {:?}", other.map(|v| hex(&v)))),
                                    }
                                } else if let Ok(v) = res {
                                    problems.push(format!("short-object-accepted:{kind}:object {size} bytes filled a {dest} byte destination: {}", hex(&v)));
                                }
                            }
                        }
                    }
                    Op::ReadTyped { kind } => {
                        tag = format!("read-typed:{kind}");
                        let (bytes, got): (Vec<u8>, Result<Result<Vec<u8>, Error>, Stop>) = match kind {
                            0 => {
                                let v = drng.u8();
                                sim.net.devs[0].mailbox.od.insert((idx, 1), vec![v]);
                                (vec![v], sim.run(sd.sdo_read::<u8>(idx, 1)).map(|r| r.map(|x| vec![x])))
                            }
                            1 => {
                                let v = drng.u16();
                                sim.net.devs[0].mailbox.od.insert((idx, 1), v.to_le_bytes().to_vec());
                                (v.to_le_bytes().to_vec(), sim.run(sd.sdo_read::<u16>(idx, 1)).map(|r| r.map(|x| x.to_le_bytes().to_vec())))
                            }
                            2 => {
                                let v = drng.u32();
                                sim.net.devs[0].mailbox.od.insert((idx, 1), v.to_le_bytes().to_vec());
                                (v.to_le_bytes().to_vec(), sim.run(sd.sdo_read::<u32>(idx, 1)).map(|r| r.map(|x| x.to_le_bytes().to_vec())))
                            }
                            3 => {
                                let v = drng.u64();
                                sim.net.devs[0].mailbox.od.insert((idx, 1), v.to_le_bytes().to_vec());
                                (v.to_le_bytes().to_vec(), sim.run(sd.sdo_read::<u64>(idx, 1)).map(|r| r.map(|x| x.to_le_bytes().to_vec())))
                            }
                            4 => {
                                let b = drng.bytes(8);
                                sim.net.devs[0].mailbox.od.insert((idx, 1), b.clone());
                                (b, sim.run(sd.sdo_read::<[u16; 4]>(idx, 1)).map(|r| r.map(|x| x.iter().flat_map(|w| w.to_le_bytes()).collect())))
                            }
                            _ => {
                                let s: Vec<u8> = (0..10).map(|_| drng.range(0x20, 0x7e) as u8).collect();
                                sim.net.devs[0].mailbox.od.insert((idx, 1), s.clone());
                                (s, sim.run(sd.sdo_read::<heapless::String<10>>(idx, 1)).map(|r| r.map(|x| x.as_bytes().to_vec())))
                            }
                        };
                        match got {
                            Ok(Ok(v)) if v == bytes => {}
                            other => problems.push(format!("typed-read:{}:object {} got {:?}", ["u8", "u16", "u32", "u64", "array-u16x4", "string10"][*kind as usize], hex(&bytes), other.map(|r| r.map(|v| hex(&v)).map_err(|e| format!("{e:?}"))))),
                        }
                    }
                    Op::Write { size } => {
                        tag = "write".into();
                        let v = drng.bytes(*size);
                        let before = sim.net.devs[0].mailbox.downloads.len();
                        let r = match size {
                            1 => sim.run(sd.sdo_write(idx, 2, v[0])),
                            2 => sim.run(sd.sdo_write(idx, 2, u16::from_le_bytes([v[0], v[1]]))),
                            3 => sim.run(sd.sdo_write(idx, 2, [v[0], v[1], v[2]])),
                            _ => sim.run(sd.sdo_write(idx, 2, u32::from_le_bytes([v[0], v[1], v[2], v[3]]))),
                        };
                        match r {
                            Ok(Ok(())) => {
                                let dl = &sim.net.devs[0].mailbox.downloads[before..];
                                if dl.len() != 1 || dl[0].0 != idx || dl[0].1 != 2 || dl[0].2 != v || dl[0].3 {
                                    problems.push(format!("write-delivery:value {} index {idx:#x}:2, device received {:?}", hex(&v), dl.iter().map(|d| (d.0, d.1, hex(&d.2), d.3)).collect::<Vec<_>>()));
                                }
                            }
                            other => problems.push(format!("write-failed:{} bytes: {:?}", size, other.map(|r| r.map_err(|e| format!("{e:?}"))))),
                        }
                    }
                    Op::Abort { code, write } => {
                        tag = "abort".into();
                        let (c, name) = ABORTS[*code];
                        sim.net.devs[0].mailbox.aborts.insert((idx, 3), c);
                        let r = if *write { sim.run(sd.sdo_write(idx, 3, 1u8)).map(|r| r.map(|_| ())) } else { sim.run(sd.sdo_read::<u32>(idx, 3)).map(|r| r.map(|_| ())) };
                        match r {
                            Ok(Err(Error::Mailbox(MailboxError::Aborted { code: got, address, sub_index }))) => {
                                if format!("{got:?}") != name || address != idx || sub_index != 3 {
                                    problems.push(format!("abort-code:device sent {c:#010x} ({name}) for {idx:#x}:3, reported {got:?} for {address:#x}:{sub_index}"));
                                }
                            }
                            other => problems.push(format!("abort-not-reported:{name}: {:?}", other.map(|r| r.map_err(|e| format!("{e:?}"))))),
                        }
                    }
                    Op::Emergency => {
                        tag = "emergency".into();
                        sim.net.devs[0].mailbox.od.insert((idx, 1), vec![1, 2, 3, 4]);
                        // any 16 bit error code / 8 bit error register (the low byte of the code sits
                        // where an SDO response has its command byte)
                        let want = match drng.below(4) {
                            0 => (0x4321u16, 0x81u8),
                            1 => (0xff00 | drng.u8() as u16, drng.u8()),
                            _ => (drng.u16(), drng.u8()),
                        };
                        sim.net.devs[0].mailbox.emergency_next = Some(want);
                        let wr = drng.bool();
                        let r = if wr { sim.run(sd.sdo_write(idx, 1, 7u32)).map(|r| r.map(|_| ())) } else { sim.run(sd.sdo_read::<u32>(idx, 1)).map(|r| r.map(|_| ())) };
                        match r {
                            Ok(Err(Error::Mailbox(MailboxError::Emergency { error_code, error_register }))) => {
                                if (error_code, error_register) != want {
                                    problems.push(format!("emergency-content:device sent {:#x} {:#x}, reported {error_code:#x} {error_register:#x}", want.0, want.1));
                                }
                            }
                            other => problems.push(format!("emergency-not-reported:code {:#06x} low-byte-class {:#x}: {:?}", want.0, (want.0 & 0xe0), other.map(|r| r.map_err(|e| format!("{e:?}"))))),
                        }
                    }
                    Op::WrongObject => {
                        tag = "wrong-object".into();
                        sim.net.devs[0].mailbox.od.insert((idx, 1), vec![9, 9, 9, 9]);
                        sim.net.devs[0].mailbox.wrong_object_next = true;
                        match sim.run(sd.sdo_read::<u32>(idx, 1)) {
                            Ok(Err(Error::Mailbox(MailboxError::SdoResponseInvalid { .. }))) => {}
                            other => problems.push(format!("wrong-object-accepted:{:?}", other.map(|r| r.map_err(|e| format!("{e:?}"))))),
                        }
                    }
                    Op::ReadArray { n } => {
                        tag = "read-array".into();
                        let vals: Vec<u16> = (0..*n).map(|_| drng.u16()).collect();
                        sim.net.devs[0].mailbox.od.insert((idx, 0), vec![*n as u8]);
                        for (i, v) in vals.iter().enumerate() {
                            sim.net.devs[0].mailbox.od.insert((idx, i as u8 + 1), v.to_le_bytes().to_vec());
                        }
                        match sim.run(sd.sdo_read_array::<u16, 8>(idx)) {
                            Ok(Ok(v)) if v.as_slice() == vals.as_slice() => {}
                            other => problems.push(format!("read-array:{vals:?} got {:?}", other.map(|r| r.map(|v| v.to_vec()).map_err(|e| format!("{e:?}"))))),
                        }
                    }
                    Op::WriteArray { n } => {
                        tag = "write-array".into();
                        let vals: Vec<u16> = (0..*n).map(|_| drng.u16()).collect();
                        match sim.run(sd.sdo_write_array(idx, &vals)) {
                            Ok(Ok(())) => {
                                let od = &sim.net.devs[0].mailbox.od;
                                let count = od.get(&(idx, 0)).cloned();
                                let stored: Vec<Option<Vec<u8>>> = (1..=*n as u8).map(|i| od.get(&(idx, i)).cloned()).collect();
                                let want: Vec<Option<Vec<u8>>> = vals.iter().map(|v| Some(v.to_le_bytes().to_vec())).collect();
                                if count != Some(vec![*n as u8]) || stored != want {
                                    problems.push(format!("write-array:values {vals:?}: device holds count {count:?} entries {stored:?}"));
                                }
                            }
                            other => problems.push(format!("write-array-failed:{:?}", other.map(|r| r.map_err(|e| format!("{e:?}"))))),
                        }
                    }
                    Op::StaleThenRead { size } => {
                        tag = "stale-out-mailbox".into();
                        let data = drng.bytes(*size);
                        sim.net.devs[0].mailbox.od.insert((idx, 1), data.clone());
                        // something is already sitting in the device's out-mailbox
                        // ... and sometimes more messages are queued behind it (1..3 stale messages in all)
                        let n_stale = 1 + drng.usize_below(3);
                        for _ in 0..n_stale {
                            let stale = drng.bytes((rs as usize).min(24));
                            sim.net.devs[0].mailbox.queue.push_back(stale);
                        }
                        sim.net.devs[0].mailbox_fill_if_ready();
                        let r: R = read_n!(sim, sd, idx, 1u8, *size, [1, 4, 9, 40]);
                        match r {
                            Ok(Ok(v)) if v == data => {}
                            other => problems.push(format!("stale-data-confuses:object {} got {:?}", hex(&data), other.map(|r| r.map(|v| hex(&v)).map_err(|e| format!("{e:?}"))))),
                        }
                    }
                }
                out.push((tag, problems));
            }
            let counters: Vec<u8> = sim.net.devs[0].mailbox.received[first_req..].iter().map(|r| r.counter).collect();
            if std::env::var("VH_PROGRESS").is_ok() {
                eprintln!("rx_errors {:?} malformed {:?} frames {}", sim.rx_errors, sim.net.malformed, sim.frames_tx);
            }
            Ok((out, counters))
        })
    }));
    let nontrivial = true;
    sh.case(if nontrivial { Some(fnv_mix(fnv(scenario.to_string().as_bytes()), case)) } else { None });
    sh.count(&format!("read_mbx.{rs}"));
    match res {
        Err(p) => {
            let msg = p.downcast_ref::<String>().cloned().or_else(|| p.downcast_ref::<&str>().map(|s| s.to_string())).unwrap_or_default();
            let cls: String = msg.chars().filter(|c| !c.is_ascii_digit()).take(50).collect();
            sh.violation(&format!("C15:panic:{}", cls.trim().replace(' ', "-")), format!("{msg}"), scenario.clone());
        }
        Ok(Err(e)) => sh.violation("C15:init-failed", e, scenario.clone()),
        Ok(Ok((out, counters))) => {
            for (tag, problems) in out {
                sh.count(&format!("op.{tag}"));
                for p in problems {
                    let mut parts = p.split(':');
                    let a = parts.next().unwrap_or("");
                    let b = parts.next().unwrap_or("");
                    let sig = if ["read-failed", "wrong-bytes", "oversize-not-too-long", "short-object-accepted", "typed-read", "abort-not-reported"].contains(&a) { format!("C15:{a}:{b}{}", if a == "read-failed" { format!(":{}", parts.next().unwrap_or("").trim()) } else { String::new() }) } else { format!("C15:{a}") };
                    sh.violation(&sig, format!("{p} (mailboxes write {ws} read {rs})"), scenario.clone());
                }
            }
            // counters cycle 1..7
            sh.add("requests_seen_by_device", counters.len() as u64);
            let mut prev: Option<u8> = None;
            for c in &counters {
                let ok = (1..=7).contains(c) && prev.is_none_or(|p| *c == if p >= 7 { 1 } else { p + 1 });
                if !ok {
                    sh.violation("C15:mailbox-counter-sequence", format!("device saw counters {counters:?}"), scenario.clone());
                    break;
                }
                prev = Some(*c);
            }
        }
    }
    if sh.wants_sample() {
        sh.sample(scenario);
    }
}
