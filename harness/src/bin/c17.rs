//! C17 — topology and propagation delays are reconstructed correctly from port timestamps.
//!
//! Ground truth: a tree wired through port 0 with symmetric per-link delays (forwarding folded
//! into the links), per-device clock offsets, 32/64-bit clocks. Port receive times are computed by
//! walking the frame's physical path (vh::sim::Net::port_times). After the real `init` the
//! registers 0x0920/0x0928 of the simulated devices, `SubDevice::propagation_delay()` and the
//! parent index (cfg-gated accessor) are compared with the ground truth. A second family feeds
//! arbitrary DL-status / port-time reports for the no-panic clause.

use ethercrab::verif::topology as vt;
use ethercrab::{MainDevice, SubDeviceGroup};
use serde_json::json;
use vh::prng::{Rng, fnv, fnv_mix};
use vh::shard::{Args, Shard};
use vh::sim::desc::*;
use vh::sim::device::*;
use vh::sim::{Net, Sim, Stop, Topology};
use vh::simrun::*;
use vh::wire;

const MAXD: usize = 32;

fn main() {
    let args = Args::parse();
    let mut sh = Shard::new("C17", &args);
    std::panic::set_hook(Box::new(|_| {}));
    let n = args.cases(1_600, 160_000);
    for i in 0..n {
        let case = args.case_id(i);
        if let Some(only) = args.only_case {
            if only != case {
                continue;
            }
        }
        let mut rng = args.rng().fork(case ^ 0xC17);
        if rng.chance(3, 4) {
            tree_case(&mut sh, case, &mut rng);
        } else {
            hostile_case(&mut sh, case, &mut rng);
        }
    }
    sh.finish();
}

fn gen_tree(rng: &mut Rng, n: usize, chain: bool) -> Topology {
    let mut up: Vec<Option<(usize, u8)>> = vec![None];
    let mut link = vec![rng.range(10, 2000)];
    for i in 1..n {
        loop {
            let p = if chain { i - 1 } else { rng.usize_below(i) };
            let ports: Vec<u8> = if chain { vec![1] } else { vec![3, 1, 2] };
            let free: Vec<u8> = ports.into_iter().filter(|q| !up.contains(&Some((p, *q)))).collect();
            if free.is_empty() {
                continue;
            }
            up.push(Some((p, *rng.pick(&free))));
            link.push(rng.range(10, 2000));
            break;
        }
    }
    Topology { up, link_ns: link }
}

fn tree_case(sh: &mut Shard, case: u64, rng: &mut Rng) {
    let n = 1 + rng.usize_below(24);
    let chain = rng.chance(2, 5);
    let all_dc = rng.chance(1, 2);
    let near_wrap = rng.chance(1, 4);
    let topo = gen_tree(rng, n, chain);
    let descs: Vec<DeviceDesc> = (0..n)
        .map(|_| {
            let mut d = DeviceDesc::simple("DC");
            d.dc_supported = all_dc || rng.chance(2, 3);
            d.dc_enhanced = rng.chance(3, 4);
            d.dc_64 = rng.bool();
            d
        })
        .collect();
    let mut net = Net::new(descs.clone(), topo.clone());
    for d in net.devs.iter_mut() {
        d.clock_offset = if near_wrap { 0xffff_ffff_u64.wrapping_sub(net.now_ns).wrapping_sub(rng.below(20_000)).wrapping_add(rng.below(5_000_000_000) & 0xffff_ffff_0000_0000) } else { rng.u64() >> rng.below(40) };
    }
    let now_val: u64 = rng.u64() >> rng.below(30);
    let seed = rng.u64();
    let ring = net.ring();
    let scenario = json!({"case": case, "devices": n, "chain": chain, "all_dc": all_dc, "near_32bit_wrap": near_wrap, "up": topo.up.iter().map(|u| u.map(|(p, q)| format!("{p}.{q}")).unwrap_or("-".into())).collect::<Vec<_>>(), "links_ns": topo.link_ns, "dc": descs.iter().map(|d| d.dc_supported).collect::<Vec<_>>()});
    let res = std::panic::catch_unwind(std::panic::AssertUnwindSafe(|| {
        with_sim(net, seed, &MdCfg { dc_static_sync_iterations: 2, ..Default::default() }, |md: &MainDevice, sim: &mut Sim| {
            sim.net.keep_log = true;
            if near_wrap {
                sim.net.straddle_wrap = Some(seed);
            }
            let r = sim.run(md.init_single_group::<MAXD, 8>(move || now_val));
            let g: SubDeviceGroup<MAXD, 8> = match r {
                Ok(Ok(g)) => g,
                Ok(Err(e)) => return Err(format!("init-failed:{}:{e:?}", variant(&e))),
                Err(Stop::Stuck) => return Err("init-hangs:stuck".into()),
                Err(Stop::Budget) => return Err("budget:".into()),
            };
            // ring position -> (propagation delay, parent ring position)
            let reported: Vec<(u16, u32, Option<u16>, u64)> = g.iter(md).map(|sd| (vt::index(&sd), sd.propagation_delay(), vt::parent_index(&sd), vt::dc_receive_time(&sd))).collect();
            let regs: Vec<(u32, u64, u64)> = sim.net.devs.iter().map(|d| (u32::from_le_bytes(d.mem[REG_DC_DELAY..REG_DC_DELAY + 4].try_into().unwrap()), u64::from_le_bytes(d.mem[REG_DC_OFFSET..REG_DC_OFFSET + 8].try_into().unwrap()), d.latched_recv)).collect();
            let delay_written: Vec<bool> = sim.net.devs.iter().map(|d| d.writes.iter().any(|w| w.addr as usize == REG_DC_DELAY && w.cmd == wire::CMD_FPWR)).collect();
            let frmw_targets: Vec<u16> = sim.net.log.iter().flat_map(|l| l.tx.dgrams.iter().filter(|d| d.cmd == wire::CMD_FRMW).map(|d| d.adp()).collect::<Vec<_>>()).collect();
            Ok((reported, regs, delay_written, frmw_targets))
        })
    }));
    let nontrivial = n >= 2;
    sh.case(if nontrivial { Some(fnv_mix(fnv(scenario.to_string().as_bytes()), case)) } else { None });
    sh.count(if chain { "tree.chain" } else { "tree.branched" });
    if near_wrap {
        sh.count("tree.near_32bit_wrap");
    }
    let (reported, regs, delay_written, frmw) = match res {
        Err(p) => {
            let msg = p.downcast_ref::<String>().cloned().or_else(|| p.downcast_ref::<&str>().map(|s| s.to_string())).unwrap_or_default();
            let cls: String = msg.chars().filter(|c| !c.is_ascii_digit()).take(40).collect();
            sh.violation(&format!("C17:panic:valid-tree:{}", cls.trim().replace(' ', "-")), msg, scenario);
            return;
        }
        Ok(Err(e)) => {
            if e.starts_with("budget") {
                sh.inconclusive = Some(format!("case {case}: executor budget"));
            } else {
                let mut p = e.split(':');
                sh.violation(&format!("C17:{}:{}", p.next().unwrap_or(""), p.next().unwrap_or("")), e.clone(), scenario);
            }
            return;
        }
        Ok(Ok(v)) => v,
    };
    sh.count("trees_initialised");
    let mut problems: Vec<String> = vec![];
    // ring position p is device ring[p]
    let dc_positions: Vec<usize> = (0..n).filter(|p| descs[ring[*p]].dc_supported).collect();
    // (1) non-decreasing delay over DC devices in ring order
    let mut prev = 0u32;
    for p in &dc_positions {
        let d = reported[*p].1;
        if d < prev {
            problems.push(format!("delay-decreases:ring position {p} has delay {d} after {prev}"));
        }
        prev = d;
        let dev = ring[*p];
        if delay_written[dev] && regs[dev].0 != d {
            problems.push(format!("delay-register:device {dev} register 0x0928 holds {} but propagation_delay() is {d}", regs[dev].0));
        }
        if !delay_written[dev] {
            problems.push(format!("delay-not-programmed:DC device {dev} never got register 0x0928 written"));
        }
        // (4) offset == now - receive time (as i64)
        let want = (now_val as i64).wrapping_sub(reported[*p].3 as i64) as u64;
        if regs[dev].1 != want {
            problems.push(format!("offset:device {dev} register 0x0920 holds {:#x}, master time {now_val:#x} minus latched receive time {:#x} is {want:#x}", regs[dev].1, reported[*p].3));
        }
        let recv_true = if descs[dev].dc_64 { regs[dev].2 } else { regs[dev].2 & 0xffff_ffff };
        if reported[*p].3 != recv_true {
            problems.push(format!("receive-time:device {dev} latched {recv_true:#x}, MainDevice recorded {:#x}", reported[*p].3));
        }
    }
    // non-DC devices must not be programmed
    for p in 0..n {
        let dev = ring[p];
        if !descs[dev].dc_supported && (delay_written[dev] || regs[dev].1 != 0) {
            problems.push(format!("non-dc-device-programmed:device {dev}"));
        }
    }
    // (2) exact on pure all-DC chains: sum of link delays from the first DC device
    if chain && dc_positions.len() == n {
        sh.count("exact_chain_checks");
        let mut acc = 0u64;
        for p in 1..n {
            acc += topo.link_ns[ring[p]];
            if reported[p].1 as u64 != acc {
                problems.push(format!("chain-delay:ring position {p}: delay {} but the true one-way delay from the first DC device is {acc} ns", reported[p].1));
                break;
            }
        }
    }
    // (3) parent == true upstream neighbour
    for p in 0..n {
        let dev = ring[p];
        let want = topo.up[dev].map(|(parent, _)| ring.iter().position(|x| *x == parent).unwrap() as u16);
        if reported[p].2 != want {
            problems.push(format!("parent:ring position {p} (device {dev}) has parent {:?}, true upstream neighbour is at ring position {want:?}", reported[p].2));
            break;
        }
    }
    // (5) reference = first DC device
    if let Some(first) = dc_positions.first() {
        sh.count("networks_with_dc");
        let want = 0x1000 + *first as u16;
        if frmw.is_empty() || frmw.iter().any(|a| *a != want) {
            problems.push(format!("reference:static sync FRMW goes to {:x?}, first DC device is {want:#06x}", frmw.iter().take(3).collect::<Vec<_>>()));
        }
    } else if !frmw.is_empty() {
        problems.push("reference:FRMW sent although no device supports DC".into());
    }
    let mut seen = std::collections::BTreeSet::new();
    for p in problems {
        let kind = p.split(':').next().unwrap().to_string();
        let sig = format!("C17:{kind}{}", if near_wrap { ":near-32bit-wrap" } else { "" });
        if seen.insert(sig.clone()) {
            sh.violation(&sig, p, scenario.clone());
        }
    }
    if sh.wants_sample() && n > 4 && !chain {
        sh.sample(json!({"scenario": scenario, "delays": reported.iter().map(|r| r.1).collect::<Vec<_>>(), "parents": reported.iter().map(|r| r.2).collect::<Vec<_>>()}));
    }
}

/// Arbitrary (inconsistent) DL status / port time reports: an error, never a panic.
fn hostile_case(sh: &mut Shard, case: u64, rng: &mut Rng) {
    let n = 1 + rng.usize_below(8);
    let ch = rng.bool();
    let topo = gen_tree(rng, n, ch);
    let descs: Vec<DeviceDesc> = (0..n)
        .map(|_| {
            let mut d = DeviceDesc::simple("DC");
            d.dc_supported = rng.chance(3, 4);
            d.dc_enhanced = true;
            d.dc_64 = rng.bool();
            d
        })
        .collect();
    let mut net = Net::new(descs, topo);
    let mut what = vec![];
    for d in net.devs.iter_mut() {
        if rng.chance(1, 2) {
            let dl = match rng.below(6) {
                0 => 0x0000,          // no open port at all
                1 => 0x00f0,          // all four open
                2 => 0x0010,          // only port 0
                3 => 0x00e0,          // ports 1-3 but not 0
                _ => rng.u16(),
            };
            d.dl_status_override = Some(dl);
            what.push(format!("dl={dl:#06x}"));
        }
        d.clock_offset = rng.u64();
    }
    let scramble_times = rng.chance(1, 2);
    let seed = rng.u64();
    let scenario = json!({"case": case, "family": "hostile", "devices": n, "reports": what, "scrambled_port_times": scramble_times});
    sh.case(Some(fnv_mix(fnv(scenario.to_string().as_bytes()), case)));
    sh.count("hostile_reports");
    let tseed = rng.u64();
    let res = std::panic::catch_unwind(std::panic::AssertUnwindSafe(|| {
        with_sim(net, seed, &MdCfg { dc_static_sync_iterations: 1, ..Default::default() }, |md: &MainDevice, sim: &mut Sim| {
            if scramble_times {
                sim.net.scramble_port_times = Some(tseed);
            }
            match sim.run(md.init_single_group::<MAXD, 8>(|| 42)) {
                Ok(Ok(_)) => "ok".to_string(),
                Ok(Err(e)) => format!("err:{}", variant(&e)),
                Err(s) => format!("{s:?}"),
            }
        })
    }));
    match res {
        Err(p) => {
            let msg = p.downcast_ref::<String>().cloned().or_else(|| p.downcast_ref::<&str>().map(|s| s.to_string())).unwrap_or_default();
            let cls: String = msg.chars().filter(|c| !c.is_ascii_digit()).take(40).collect();
            sh.violation(&format!("C17:panic:inconsistent-report:{}", cls.trim().replace(' ', "-")), msg, scenario);
        }
        Ok(o) => {
            sh.count(&format!("hostile_outcome.{}", o.split(':').next().unwrap()));
            if o == "Stuck" {
                sh.violation("C17:init-hangs:inconsistent-report", o, scenario);
            }
        }
    }
}
