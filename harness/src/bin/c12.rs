//! C12 — EEPROM reads return exactly the stored bytes and parse to what they encode.
//!
//! Images are generated from random device descriptions by the independent SII builder
//! (vh::sim::desc); ethercrab's parser is driven through the cfg-gated `EepromProbe` with an
//! in-memory provider (4- and 8-byte chunks) and, for a subset, end-to-end through the simulated
//! SII register interface with the public `SubDevice::eeprom_read_raw / eeprom_read / eeprom_size`.

use ethercrab::error::Error;
use ethercrab::verif::eeprom::EepromProbe;
use ethercrab::{MainDevice, SubDeviceGroup};
use serde_json::json;
use vh::memeeprom::{MemEeprom, now_or_never};
use vh::prng::{Rng, fnv, fnv_mix};
use vh::shard::{Args, Shard, hex};
use vh::sim::desc::*;
use vh::sim::{Net, Sim};
use vh::simrun::*;

fn main() {
    let args = Args::parse();
    let mut sh = Shard::new("C12", &args);
    vh::shard::quiet_panics();
    let n = args.cases(2_400, 240_000);
    for i in 0..n {
        let case = args.case_id(i);
        if let Some(only) = args.only_case {
            if only != case {
                continue;
            }
        }
        let mut rng = args.rng().fork(case ^ 0xC12);
        let opts = GenOpts { max_strings: *rng.pick(&[0usize, 3, 8, 50]), max_string_len: *rng.pick(&[8usize, 40, 64, 128, 255]), max_pdos: *rng.pick(&[0usize, 4, 16, 64]), max_entries: *rng.pick(&[0usize, 3, 8, 40, 255]), mailbox: true, nasty_strings: rng.bool(), max_sms: 8 };
        let mut d = gen_desc(&mut rng, &opts);
        // well-formed: string indices inside the table
        let ns = d.strings.len() as u8;
        for idx in [&mut d.group_idx, &mut d.image_idx, &mut d.order_idx, &mut d.name_idx] {
            if *idx > ns {
                *idx = ns;
            }
        }
        // more FMMUs sometimes
        if rng.chance(1, 4) {
            d.fmmus = (0..rng.usize_below(17)).map(|_| *rng.pick(&[0u8, 1, 2, 3])).collect();
            d.eeprom_bytes = d.eeprom_bytes.max(build_sii(&d).len().next_power_of_two());
        }
        let image = build_sii(&d);
        // builder and decoder are written independently of each other and of ethercrab: they must
        // agree, or the harness itself is wrong (inconclusive, never a verdict on ethercrab)
        // (the image keeps TxPDOs and RxPDOs in two categories, in either order: compare per direction)
        let by_dir = |p: &[PdoDesc]| -> (Vec<PdoDesc>, Vec<PdoDesc>) { (p.iter().filter(|x| x.tx).cloned().collect(), p.iter().filter(|x| !x.tx).cloned().collect()) };
        match decode_sii(&image) {
            Some(x) if (x.vendor, x.product, x.revision, x.serial, &x.strings, &x.sms, by_dir(&x.pdos), &x.fmmu_ex, x.mailbox, x.has_general) == (d.vendor, d.product, d.revision, d.serial, &d.strings, &d.sms, by_dir(&d.pdos), &d.fmmu_ex, d.mailbox, d.has_general) => sh.count("builder_decoder_agree"),
            other => {
                let which = other.as_ref().map(|x| {
                    let mut w = vec![];
                    if (x.vendor, x.product, x.revision, x.serial) != (d.vendor, d.product, d.revision, d.serial) { w.push("identity"); }
                    if x.strings != d.strings { w.push("strings"); }
                    if x.sms != d.sms { w.push("sms"); }
                    if by_dir(&x.pdos) != by_dir(&d.pdos) { w.push("pdos"); }
                    if x.fmmu_ex != d.fmmu_ex { w.push("fmmu_ex"); }
                    if x.mailbox != d.mailbox { w.push("mailbox"); }
                    if x.has_general != d.has_general { w.push("has_general"); }
                    w
                });
                sh.inconclusive = Some(format!("harness: SII builder and decoder disagree on case {case}: {which:?} {:?}", other.map(|x| (x.strings.len(), x.sms.len(), x.pdos.len(), x.fmmu_ex.len()))));
            }
        }
        if rng.chance(1, 24) {
            real_dump_checks(&mut sh, case, &mut rng);
        }
        sh.case(Some(fnv_mix(fnv(&image), case)));
        sh.max("image_bytes", image.len() as u64);
        let chunk = if rng.bool() { 4 } else { 8 };
        sh.count(&format!("chunk.{chunk}"));
        sh.guard_case(case, |sh| parse_checks(sh, case, &d, &image, chunk));
        sh.guard_case(case, |sh| raw_checks(sh, case, &mut rng, &image, chunk));
        if rng.chance(1, 16) {
            sh.guard_case(case, |sh| e2e_checks(sh, case, &mut rng, &d, &image));
        }
        if sh.wants_sample() && d.pdos.len() > 1 {
            sh.sample(json!({"case": case, "strings": d.strings.len(), "sms": d.sms.len(), "pdos": d.pdos.len(), "fmmus": d.fmmus, "image_len": image.len(), "image_head": hex(&image[..64.min(image.len())])}));
        }
    }
    sh.finish();
}

/// The repo's dumps of real devices: raw reads against the file's bytes, parsed items against the
/// independent decoder's reading of the same bytes.
fn real_dump_checks(sh: &mut Shard, case: u64, rng: &mut Rng) {
    const DUMPS: [&str; 7] = ["akd.hex", "akd_null_strings.hex", "ek1100.hex", "el2262.bin", "el2828.hex", "el2889.hex", "hbm_clipx_eeprom_dump.bin"];
    let name = *rng.pick(&DUMPS);
    let Ok(image) = std::fs::read(format!("/repo/dumps/eeprom/{name}")) else {
        sh.observe("real_dump_missing", name.to_string());
        return;
    };
    let chunk = if rng.bool() { 4 } else { 8 };
    sh.count(&format!("real_dump.{name}"));
    sh.distinct_aux(fnv_mix(fnv(&image), chunk as u64));
    raw_checks(sh, case, rng, &image, chunk);
    match decode_sii(&image) {
        Some(d) => {
            sh.count("real_dump.parsed");
            parse_checks(sh, case, &d, &image, chunk);
        }
        None => sh.observe("real_dump_not_decodable", name.to_string()),
    }
}

fn v(sh: &mut Shard, sig: &str, detail: String, case: u64) {
    sh.violation(&format!("C12:{sig}"), detail, json!({"case": case}));
}

fn parse_checks(sh: &mut Shard, case: u64, d: &DeviceDesc, image: &[u8], chunk: usize) {
    let mem = MemEeprom::new(image.to_vec(), chunk);
    let p = EepromProbe::new(mem.clone());
    // identity
    match now_or_never(p.identity()) {
        Ok(id) => {
            sh.count("parsed.identity");
            if (id.vendor_id, id.product_id, id.revision, id.serial) != (d.vendor, d.product, d.revision, d.serial) {
                v(sh, "parse-mismatch:identity", format!("{id:?}"), case);
            }
        }
        Err(e) => v(sh, "parse-error:identity", format!("{e:?}"), case),
    }
    // size
    match now_or_never(p.size()) {
        Ok(s) => {
            sh.count("parsed.size");
            if s != d.eeprom_bytes {
                v(sh, "parse-mismatch:size", format!("{s} != {}", d.eeprom_bytes), case);
            }
        }
        Err(e) => v(sh, "parse-error:size", format!("{e:?}"), case),
    }
    // name: string(order_idx) if there is a general category
    let want_name = if d.has_general { d.string(d.order_idx) } else { None };
    match now_or_never(p.device_name()) {
        Ok(n) => {
            sh.count("parsed.name");
            let got = n.as_ref().map(|s| s.as_str().to_string());
            if got != want_name {
                v(sh, "parse-mismatch:name", format!("got {got:?} want {want_name:?}"), case);
            }
        }
        Err(Error::StringTooLong { max_length, string_length }) => {
            sh.count("name_too_long_for_capacity");
            // legitimate only if the stored string really exceeds the capacity
            let stored = d.strings.get(d.order_idx.wrapping_sub(1) as usize).map_or(0, |s| s.len());
            if stored <= max_length || string_length != stored {
                v(sh, "parse-mismatch:name-too-long", format!("stored {stored}, reported {string_length}, capacity {max_length}"), case);
            }
        }
        Err(e) => v(sh, "parse-error:name", format!("{e:?}"), case),
    }
    // description
    if d.has_general {
        let want = d.string(d.name_idx);
        match now_or_never(p.description()) {
            Ok(n) => {
                sh.count("parsed.description");
                let got = n.as_ref().map(|s| s.as_str().to_string());
                if got != want {
                    v(sh, "parse-mismatch:description", format!("got {got:?} want {want:?}"), case);
                }
            }
            Err(Error::StringTooLong { max_length, string_length }) => {
                let stored = d.strings.get(d.name_idx.wrapping_sub(1) as usize).map_or(0, |s| s.len());
                if stored <= max_length || string_length != stored {
                    v(sh, "parse-mismatch:description-too-long", format!("stored {stored}, reported {string_length}, capacity {max_length}"), case);
                }
            }
            Err(e) => v(sh, "parse-error:description", format!("{e:?}"), case),
        }
        match now_or_never(p.general()) {
            Ok(g) => {
                sh.count("parsed.general");
                if g != (d.group_idx, d.image_idx, d.order_idx, d.name_idx, d.coe_details, d.general_flags) {
                    v(sh, "parse-mismatch:general", format!("{g:?}"), case);
                }
            }
            Err(e) => v(sh, "parse-error:general", format!("{e:?}"), case),
        }
    }
    // every string of the table
    for i in 1..=d.strings.len().min(20) {
        match now_or_never(p.find_string(i as u8)) {
            Ok(s) => {
                sh.count("parsed.string");
                let got = s.as_ref().map(|s| s.as_str().to_string());
                if got != d.string(i as u8) {
                    v(sh, "parse-mismatch:string", format!("index {i}: got {got:?} want {:?}", d.string(i as u8)), case);
                }
            }
            Err(e) => v(sh, "parse-error:string", format!("index {i}: {e:?}"), case),
        }
    }
    // mailbox
    match now_or_never(p.mailbox_config()) {
        Ok(m) => {
            sh.count("parsed.mailbox");
            let (wo, ws, ro, rs) = d.mailbox.unwrap_or((0, 0, 0, 0));
            // the protocols word is a u8 bit set in ethercrab: compare the low byte
            if (m.0, m.1, m.2, m.3, m.4 & 0xff) != (wo, ws, ro, rs, d.mailbox_protocols & 0xff) {
                v(sh, "parse-mismatch:mailbox", format!("{m:?}"), case);
            }
        }
        Err(e) => v(sh, "parse-error:mailbox", format!("{e:?}"), case),
    }
    // sync managers
    match now_or_never(p.sync_managers()) {
        Ok(s) => {
            sh.count("parsed.sync_managers");
            let want: Vec<(u16, u16, u8, u8, u8)> = d.sms.iter().map(|s| (s.start, s.len, s.control & 0x7f, s.enable, s.usage)).collect();
            let got: Vec<(u16, u16, u8, u8, u8)> = s.iter().map(|x| (x.0, x.1, x.2 & 0x7f, x.3, x.4)).collect();
            if got != want {
                v(sh, "parse-mismatch:sync-managers", format!("got {got:?} want {want:?}"), case);
            }
        }
        Err(e) => v(sh, "parse-error:sync-managers", format!("{e:?}"), case),
    }
    match now_or_never(p.fmmus()) {
        Ok(f) => {
            sh.count("parsed.fmmus");
            let mut want: Vec<u8> = d.fmmus.iter().map(|b| if *b == 0xff { 0 } else { *b }).collect();
            if want.len() % 2 == 1 {
                want.push(0); // pad byte 0xff reads as "unused"
            }
            let got: Vec<u8> = f.iter().copied().collect();
            if got != want {
                v(sh, "parse-mismatch:fmmus", format!("got {got:?} want {want:?}"), case);
            }
        }
        Err(e) => v(sh, "parse-error:fmmus", format!("{e:?}"), case),
    }
    match now_or_never(p.fmmu_mappings()) {
        Ok(f) => {
            sh.count("parsed.fmmu_ex");
            let got: Vec<u8> = f.iter().copied().collect();
            // the category is padded to a word boundary: a partial trailing item is not an item
            if got != d.fmmu_ex {
                v(sh, "parse-mismatch:fmmu-ex", format!("got {got:?} want {:?}", d.fmmu_ex), case);
            }
        }
        Err(e) => v(sh, "parse-error:fmmu-ex", format!("{e:?}"), case),
    }
    for tx in [true, false] {
        match now_or_never(p.pdos(tx)) {
            Ok(l) => {
                sh.count("parsed.pdos");
                let want: Vec<(u16, u8, u8, u16)> = d.pdos.iter().filter(|p| p.tx == tx).map(|p| (p.index, p.entries.len() as u8, p.sm, p.bits() as u16)).collect();
                let got: Vec<(u16, u8, u8, u16)> = l.iter().copied().collect();
                sh.add("pdo_entries", want.iter().map(|w| w.1 as u64).sum());
                if got != want {
                    v(sh, "parse-mismatch:pdos", format!("tx={tx} got {got:?} want {want:?}"), case);
                }
            }
            Err(e) => v(sh, "parse-error:pdos", format!("tx={tx}: {e:?}"), case),
        }
    }
}

fn raw_checks(sh: &mut Shard, case: u64, rng: &mut Rng, image: &[u8], chunk: usize) {
    let mem = MemEeprom::new(image.to_vec(), chunk);
    let p = EepromProbe::new(mem.clone());
    let words = image.len() / 2;
    for _ in 0..80 {
        let start = match rng.below(4) {
            0 => 0,
            1 => words.saturating_sub(1 + rng.usize_below(8)),
            _ => rng.usize_below(words),
        };
        let maxlen = (image.len() - start * 2).min(300);
        let len = match rng.below(5) {
            0 => 1.min(maxlen),
            1 => maxlen,
            _ => rng.usize_below(maxlen + 1),
        };
        let canary = rng.u8() | 1;
        let mut buf = vec![canary; len + 8];
        let r = now_or_never(p.read_raw(start as u16, &mut buf[..len]));
        sh.count(if len % 2 == 1 { "raw.odd_len" } else { "raw.even_len" });
        let want = &image[start * 2..start * 2 + len];
        match r {
            Ok(n) => {
                if buf[len..].iter().any(|b| *b != canary) {
                    v(sh, "raw-read-wrote-past-buffer", format!("start {start} len {len}"), case);
                }
                if n > len || buf[..n] != want[..n] {
                    v(sh, "raw-read-wrong-bytes", format!("start word {start} len {len} chunk {chunk}: got {} want {}", hex(&buf[..n.min(len)]), hex(&want[..n.min(len)])), case);
                } else if buf[n..len].iter().any(|b| *b != canary) {
                    v(sh, "raw-read-touched-beyond-count", format!("start {start} len {len} returned {n}"), case);
                } else if n != len {
                    // in range, but the count is short
                    let sig = if len % 2 == 1 && n == len - 1 { "raw-read-short:odd-length" } else { "raw-read-short" };
                    v(sh, sig, format!("start word {start} len {len}: returned {n} bytes"), case);
                }
            }
            Err(e) => {
                let sig = if len % 2 == 1 { "raw-read-error:odd-length" } else { "raw-read-error" };
                v(sh, sig, format!("start word {start} len {len}: {e:?}"), case);
            }
        }
    }
}

fn e2e_checks(sh: &mut Shard, case: u64, rng: &mut Rng, d: &DeviceDesc, image: &[u8]) {
    // The device must be initialisable: keep strings that feed init short.
    let mut d = d.clone();
    if d.name().is_some_and(|n| n.len() > 60) {
        return;
    }
    d.stale_address = 0;
    let mut net = Net::chain(vec![d.clone()]);
    net.devs[0].sii_script.busy_polls = rng.below(3) as u32;
    let seed = rng.u64();
    let reads: Vec<(u16, usize)> = (0..12).map(|_| (rng.below((image.len() / 2) as u64) as u16, rng.usize_below(40))).collect();
    let image = image.to_vec();
    let out = with_sim(net, seed, &MdCfg::default(), |md: &MainDevice, sim: &mut Sim| {
        let g = match sim.run(md.init_single_group::<2, 64>(|| 0)) {
            Ok(Ok(g)) => g,
            other => return Err(format!("init: {:?}", other.map(|r| r.map(|_| ())))),
        };
        let g: SubDeviceGroup<2, 64> = g;
        let sd = g.subdevice(md, 0).map_err(|e| format!("{e:?}"))?;
        let mut res = vec![];
        for (start, len) in &reads {
            let len = (*len).min(image.len() - *start as usize * 2);
            let mut buf = vec![0xA5u8; len];
            let r = sim.run(sd.eeprom_read_raw(md, *start, &mut buf));
            res.push((*start, len, r.map(|r| r.map_err(|e| format!("{e:?}"))), buf));
        }
        let size = sim.run(sd.eeprom_size(md));
        let w4 = sim.run(sd.eeprom_read::<u32>(md, 8));
        let w2 = sim.run(sd.eeprom_read::<u16>(md, 4));
        let b1 = sim.run(sd.eeprom_read::<u8>(md, 4));
        Ok((res, size.map(|r| r.map_err(|e| format!("{e:?}"))), w4.map(|r| r.map_err(|e| format!("{e:?}"))), w2.map(|r| r.map_err(|e| format!("{e:?}"))), b1.map(|r| r.map_err(|e| format!("{e:?}"))), sd.name().to_string()))
    });
    sh.count("e2e_devices");
    match out {
        Err(e) => v(sh, "e2e-init-failed", e, case),
        Ok((res, size, w4, w2, b1, _name)) => {
            for (start, len, r, buf) in res {
                sh.count("e2e_raw_reads");
                let want = &image[start as usize * 2..start as usize * 2 + len];
                match r {
                    Ok(Ok(n)) if n <= len && buf[..n] == want[..n] && (n == len || (len % 2 == 1 && n == len - 1)) => {
                        if n != len {
                            v(sh, "raw-read-short:odd-length", format!("e2e start word {start} len {len}: returned {n}"), case);
                        }
                    }
                    other => v(sh, "e2e-raw-read-wrong", format!("start {start} len {len}: {other:?} buf {}", hex(&buf)), case),
                }
            }
            if size != Ok(Ok(d.eeprom_bytes)) {
                v(sh, "e2e-size", format!("{size:?} want {}", d.eeprom_bytes), case);
            }
            if w4 != Ok(Ok(d.vendor)) {
                v(sh, "e2e-typed-read:u32", format!("{w4:?} want {}", d.vendor), case);
            }
            if w2 != Ok(Ok(d.alias)) {
                v(sh, "e2e-typed-read:u16", format!("{w2:?} want {}", d.alias), case);
            }
            if b1 != Ok(Ok(d.alias as u8)) {
                v(sh, "typed-read-error:odd-length", format!("eeprom_read::<u8>(word 4) = {b1:?}, stored byte {:#04x}", d.alias as u8), case);
            }
        }
    }
}
