//! C04 — every transmitted frame is a well-formed EtherCAT frame saying what was asked.
//!
//! Random push programs are issued against frames of every size 28..=1514; the bytes handed to the
//! `send_blocking` closure are compared with an independent encoder (vh::wire) applied to the
//! pushes the API *accepted*; refused pushes must leave the frame untouched.

use ethercrab::verif as ev;
use ethercrab::{Command, PduStorage, error::PduError};
use serde_json::json;
use std::time::Duration;
use vh::pl::*;
use vh::prng::{Rng, fnv, fnv_mix};
use vh::shard::{Args, Shard, hex};
use vh::wire::{self, Dgram};

const MAXF: usize = 1514;
const SIZES: u64 = (MAXF - 28 + 1) as u64;

#[derive(Clone, Debug)]
enum Op {
    Push { kind: usize, a: u16, r: u16, data: Vec<u8>, ovr: Option<u16> },
    Rest { kind: usize, a: u16, r: u16, bytes: Vec<u8> },
}

/// Commands incl. the helper constructors (kinds 11.. use `Command::aprd/apwr/brd/bwr/...`).
fn command(kind: usize, a: u16, r: u16) -> (Command, u8, u32) {
    if kind < NUM_CMD_KINDS {
        let (code, addr) = ref_command(kind, a, r);
        return (make_command(kind, a, r), code, addr);
    }
    let hi = (r as u32) << 16;
    match kind {
        // Auto-increment helpers take a *position* and put its negation on the wire.
        11 => (Command::aprd(a, r).into(), wire::CMD_APRD, hi | (0u16.wrapping_sub(a)) as u32),
        12 => (Command::apwr(a, r).into(), wire::CMD_APWR, hi | (0u16.wrapping_sub(a)) as u32),
        13 => (Command::brd(r).into(), wire::CMD_BRD, hi),
        14 => (Command::bwr(r).into(), wire::CMD_BWR, hi),
        15 => (Command::fprd(a, r).into(), wire::CMD_FPRD, hi | a as u32),
        16 => (Command::fpwr(a, r).into(), wire::CMD_FPWR, hi | a as u32),
        17 => (Command::frmw(a, r).into(), wire::CMD_FRMW, hi | a as u32),
        18 => (Command::lrw(hi | a as u32).into(), wire::CMD_LRW, hi | a as u32),
        19 => (Command::lwr(hi | a as u32).into(), wire::CMD_LWR, hi | a as u32),
        _ => unreachable!(),
    }
}
const KINDS: usize = 20;

fn main() {
    let args = Args::parse();
    let mut sh = Shard::new("C04", &args);
    vh::shard::quiet_panics();
    // Every size at least twice in quick.
    let n = args.cases(SIZES * 2, SIZES * 100);
    for i in 0..n {
        let case = args.case_id(i);
        if let Some(only) = args.only_case {
            if only != case {
                continue;
            }
        }
        let mut rng = args.rng().fork(case);
        let flen = 28 + (case % SIZES) as usize;
        sh.guard_case(case, |sh| run_case(&mut rng, sh, case, flen));
    }
    sh.finish();
}

fn gen_program(rng: &mut Rng, cap: usize) -> Vec<Op> {
    let n = 1 + rng.usize_below(5);
    let mut used = 0usize;
    let mut ops = vec![];
    for _ in 0..n {
        let kind = rng.usize_below(KINDS);
        let (a, r) = (rng.edgy(0, 0xffff) as u16, rng.edgy(0, 0xffff) as u16);
        let room = cap.saturating_sub(used).saturating_sub(12);
        if rng.chance(1, 4) {
            let l = match rng.below(4) {
                0 => 0,
                1 => room,
                2 => rng.usize_below(2 * cap + 1),
                _ => rng.usize_below(room + 2),
            };
            let n = if l == 0 || room == 0 { 0 } else { l.min(room) };
            if n > 0 {
                used += n + 12;
            }
            ops.push(Op::Rest { kind, a, r, bytes: rng.bytes(l) });
        } else {
            // Payload lengths around what is left, sometimes far too long.
            let l = match rng.below(8) {
                0 => 0,
                1 => room,
                2 => room + 1 + rng.usize_below(8),
                3 => room.saturating_sub(1),
                _ => rng.usize_below(room + 1),
            };
            let ovr = match rng.below(6) {
                0 => Some(rng.usize_below(l + 1) as u16),
                1 => Some(l as u16),
                2 => Some((l + rng.usize_below(room.saturating_sub(l) + 3)) as u16),
                _ => None,
            };
            let dl = ovr.map_or(l, |o| (o as usize).max(l));
            if used + dl + 12 <= cap {
                used += dl + 12;
            }
            ops.push(Op::Push { kind, a, r, data: rng.bytes(l), ovr });
        }
    }
    ops
}

fn run_case(rng: &mut Rng, sh: &mut Shard, case: u64, flen: usize) {
    let storage = PduStorage::<2, MAXF>::new();
    let (mut tx, _rx, pl) = storage.verif_try_split_with_len(flen).expect("split");
    let cap = flen - 16; // datagram area

    for prog_no in 0..7u64 {
        let ops = gen_program(rng, cap);
        let mut frame = ev::alloc_frame(&pl).expect("alloc");
        let mut expect: Vec<Dgram> = vec![];
        let mut used = 0usize;
        let mut ph = fnv_mix(0, flen as u64);
        let mut boundary = false;
        let replay = json!({"case": case, "program": prog_no, "frame_len": flen, "ops": format!("{ops:?}").chars().take(600).collect::<String>()});
        let mut bad = false;

        for (oi, op) in ops.iter().enumerate() {
            let before = ev::slot(&pl, slot_of(&frame) as usize).bytes.to_vec();
            match op {
                Op::Push { kind, a, r, data, ovr } => {
                    let (cmd, code, addr) = command(*kind, *a, *r);
                    let dl = ovr.map_or(data.len(), |o| (o as usize).max(data.len()));
                    let fits = used + dl + 12 <= cap;
                    if used + dl + 12 == cap || used + dl + 12 == cap + 1 {
                        boundary = true;
                    }
                    ph = fnv_mix(fnv_mix(fnv_mix(ph, *kind as u64), dl as u64), ovr.map_or(0xffff_ffff, |o| o as u64));
                    let res = frame.push_pdu(cmd, &data[..], *ovr);
                    sh.count(if fits { "push.fits" } else { "push.too_long" });
                    sh.count(&format!("cmd.{code}"));
                    match ovr {
                        None => sh.count("override.none"),
                        Some(o) if (*o as usize) < data.len() => sh.count("override.below"),
                        Some(o) if (*o as usize) == data.len() => sh.count("override.equal"),
                        Some(_) => sh.count("override.above"),
                    }
                    match (fits, res) {
                        (true, Ok(_h)) => {
                            let mut d = data.clone();
                            d.resize(dl, 0);
                            expect.push(Dgram { cmd: code, idx: 0, addr, len: dl as u16, reserved: 0, circulating: false, more: false, irq: 0, data: d, wkc: 0 });
                            used += dl + 12;
                        }
                        (false, Err(PduError::TooLong)) => {
                            let after = ev::slot(&pl, slot_of(&frame) as usize).bytes.to_vec();
                            if after != before {
                                sh.violation("C04:refused-push-changed-frame", format!("op {oi} refused but frame bytes changed"), replay.clone());
                                bad = true;
                            }
                        }
                        (true, Err(e)) => {
                            sh.violation("C04:fitting-push-refused", format!("op {oi}: {dl}+12 bytes at {used}/{cap} refused with {e:?}"), replay.clone());
                            bad = true;
                        }
                        (false, Ok(_)) => {
                            sh.violation("C04:oversize-push-accepted", format!("op {oi}: {dl}+12 bytes at {used}/{cap} accepted"), replay.clone());
                            bad = true;
                        }
                        (false, Err(e)) => {
                            sh.violation(&format!("C04:wrong-error:{e:?}"), format!("op {oi}: expected TooLong"), replay.clone());
                            bad = true;
                        }
                    }
                }
                Op::Rest { kind, a, r, bytes } => {
                    let (cmd, code, addr) = command(*kind, *a, *r);
                    let room = cap.saturating_sub(used).saturating_sub(12);
                    let want = if bytes.is_empty() || room == 0 { None } else { Some(bytes.len().min(room)) };
                    ph = fnv_mix(fnv_mix(fnv_mix(ph, 100 + *kind as u64), bytes.len() as u64), room as u64);
                    if bytes.len() == room || bytes.len() == room + 1 {
                        boundary = true;
                    }
                    sh.count(match want {
                        None => "rest.none",
                        Some(n) if n < bytes.len() => "rest.cut",
                        Some(_) => "rest.all",
                    });
                    let res = ev::push_pdu_slice_rest(&mut frame, cmd, bytes);
                    match (want, res) {
                        (None, Ok(None)) => {
                            let after = ev::slot(&pl, slot_of(&frame) as usize).bytes.to_vec();
                            if after != before {
                                sh.violation("C04:empty-rest-changed-frame", format!("op {oi}"), replay.clone());
                                bad = true;
                            }
                        }
                        (Some(n), Ok(Some((got, _h)))) if got == n => {
                            expect.push(Dgram { cmd: code, idx: 0, addr, len: n as u16, reserved: 0, circulating: false, more: false, irq: 0, data: bytes[..n].to_vec(), wkc: 0 });
                            used += n + 12;
                        }
                        (w, r) => {
                            sh.violation("C04:fill-rest-count", format!("op {oi}: {} bytes offered, room {room}: expected {w:?}, got {:?}", bytes.len(), r.map(|o| o.map(|x| x.0))), replay.clone());
                            bad = true;
                        }
                    }
                }
            }
            if bad {
                break;
            }
        }
        if bad {
            drop(frame);
            continue;
        }

        let npush = expect.len();
        let fut = ev::mark_sendable(frame, &pl, Duration::from_secs(3600), 0);
        let sent = tx_all(&mut tx);
        drop(fut);
        sh.count("frames");
        sh.add("datagrams", npush as u64);
        let nontrivial = npush >= 2 || boundary;
        sh.case(if nontrivial { Some(ph) } else { None });
        if sent.len() != 1 {
            sh.violation("C04:not-exactly-one-frame", format!("{} frames sent", sent.len()), replay.clone());
            continue;
        }
        let b = &sent[0];
        // Independent encoding of what was accepted (index byte copied over: C04 does not
        // constrain it).
        let mut want = wire::main_frame(expect);
        let mut problems = vec![];
        if b.len() > flen {
            problems.push(format!("frame-exceeds-size:{}>{flen}", b.len()));
        }
        match wire::decode_frame(b) {
            Ok(got) => {
                for (w, g) in want.dgrams.iter_mut().zip(got.dgrams.iter()) {
                    w.idx = g.idx;
                }
            }
            Err(e) => problems.push(format!("undecodable:{e:?}")),
        }
        let wb = wire::encode_frame(&want);
        if *b != wb && problems.is_empty() {
            let got = wire::decode_frame(b).unwrap();
            let what = if got.dst != want.dst {
                "dst"
            } else if got.src != want.src {
                "src"
            } else if got.ethertype != want.ethertype {
                "ethertype"
            } else if got.ecat_len != want.ecat_len {
                "ecat-length"
            } else if got.ecat_type != want.ecat_type {
                "ecat-type"
            } else if got.dgrams.len() != want.dgrams.len() {
                "datagram-count"
            } else {
                let mut w = "bytes";
                for (g, x) in got.dgrams.iter().zip(want.dgrams.iter()) {
                    if g.cmd != x.cmd {
                        w = "command";
                    } else if g.addr != x.addr {
                        w = "address";
                    } else if g.len != x.len {
                        w = "length";
                    } else if g.more != x.more {
                        w = "more-follows";
                    } else if g.circulating != x.circulating || g.reserved != x.reserved {
                        w = "flags";
                    } else if g.irq != x.irq {
                        w = "irq";
                    } else if g.wkc != x.wkc {
                        w = "wkc";
                    } else if g.data != x.data {
                        w = "data";
                    } else {
                        continue;
                    }
                    break;
                }
                w
            };
            problems.push(format!("mismatch:{what}"));
        }
        for p in problems {
            sh.violation(&format!("C04:{}", p.split(':').take(2).collect::<Vec<_>>().join(":")), format!("{p}\n got  {}\n want {}", hex(b), hex(&wb)), replay.clone());
        }
        if sh.wants_sample() && npush >= 2 {
            sh.sample(json!({"frame_len": flen, "ops": format!("{ops:?}").chars().take(300).collect::<String>(), "sent": hex(b)}));
        }
        let _ = fnv(&[]);
    }
}

fn slot_of(f: &ev::CreatedFrame<'_>) -> u8 {
    f.storage_slot_index()
}
