//! In-memory EEPROM data provider (drives ethercrab's SII parser at fuzzing speed through the
//! cfg(ethercrab_verif) `EepromProbe` wrapper) and a poll-once executor for futures that never
//! wait.

use ethercrab::error::Error;
use ethercrab::verif::eeprom::EepromDataProvider;
use std::cell::{Cell, RefCell};
use std::future::Future;
use std::rc::Rc;
use std::task::{Context, Poll};

#[derive(Clone)]
pub struct MemEeprom {
    pub data: Rc<RefCell<Vec<u8>>>,
    pub chunk: usize,
    pub accesses: Rc<Cell<u64>>,
    /// After this many accesses every access fails: the verdict "unbounded walk" is already
    /// decided at that point and the call is forced to return.
    pub budget: u64,
    pub writes: Rc<RefCell<Vec<(u16, [u8; 2])>>>,
    pub max_word_read: Rc<Cell<u32>>,
}

impl MemEeprom {
    pub fn new(image: Vec<u8>, chunk: usize) -> Self {
        MemEeprom { data: Rc::new(RefCell::new(image)), chunk, accesses: Rc::new(Cell::new(0)), budget: 70_000, writes: Rc::new(RefCell::new(vec![])), max_word_read: Rc::new(Cell::new(0)) }
    }

    pub fn over_budget(&self) -> bool {
        self.accesses.get() > self.budget
    }

    pub fn reset_counter(&self) {
        self.accesses.set(0);
    }
}

impl EepromDataProvider for MemEeprom {
    async fn read_chunk(&mut self, start_word: u16) -> Result<impl core::ops::Deref<Target = [u8]>, Error> {
        self.accesses.set(self.accesses.get() + 1);
        if self.accesses.get() > self.budget {
            return Err(Error::Internal);
        }
        self.max_word_read.set(self.max_word_read.get().max(start_word as u32));
        let d = self.data.borrow();
        let mut out = vec![0xffu8; self.chunk];
        for (i, o) in out.iter_mut().enumerate() {
            if let Some(b) = d.get(start_word as usize * 2 + i) {
                *o = *b;
            }
        }
        Ok(out)
    }

    async fn write_word(&mut self, start_word: u16, data: [u8; 2]) -> Result<(), Error> {
        self.accesses.set(self.accesses.get() + 1);
        if self.accesses.get() > self.budget {
            return Err(Error::Internal);
        }
        self.writes.borrow_mut().push((start_word, data));
        let mut d = self.data.borrow_mut();
        let a = start_word as usize * 2;
        if a + 1 < d.len() {
            d[a] = data[0];
            d[a + 1] = data[1];
        }
        Ok(())
    }

    async fn clear_errors(&self) -> Result<(), Error> {
        Ok(())
    }
}

/// Poll a future that can never be pending (in-memory provider).
pub fn now_or_never<F: Future>(f: F) -> F::Output {
    let mut f = std::pin::pin!(f);
    let w = std::task::Waker::noop();
    let mut cx = Context::from_waker(w);
    for _ in 0..4 {
        if let Poll::Ready(v) = f.as_mut().poll(&mut cx) {
            return v;
        }
    }
    panic!("harness: in-memory future returned Pending");
}
