//! Small deterministic PRNG (splitmix64 seeding + xoshiro256**). Every random choice in the
//! harness comes from one of these, seeded from `VERIF_SEED` and a shard/case index, so every
//! execution is replayable from (seed, case).

#[derive(Clone, Debug)]
pub struct Rng {
    s: [u64; 4],
}

fn splitmix(x: &mut u64) -> u64 {
    *x = x.wrapping_add(0x9E3779B97F4A7C15);
    let mut z = *x;
    z = (z ^ (z >> 30)).wrapping_mul(0xBF58476D1CE4E5B9);
    z = (z ^ (z >> 27)).wrapping_mul(0x94D049BB133111EB);
    z ^ (z >> 31)
}

impl Rng {
    pub fn new(seed: u64) -> Self {
        let mut x = seed ^ 0xA076_1D64_78BD_642F;
        let s = [
            splitmix(&mut x),
            splitmix(&mut x),
            splitmix(&mut x),
            splitmix(&mut x),
        ];
        Self { s }
    }

    /// Derive an independent stream for a sub-case.
    pub fn fork(&self, k: u64) -> Self {
        let mut x = self.s[0] ^ k.wrapping_mul(0xD6E8_FEB8_6659_FD93) ^ self.s[3].rotate_left(17);
        Self::new(splitmix(&mut x))
    }

    pub fn u64(&mut self) -> u64 {
        let r = self.s[1].wrapping_mul(5).rotate_left(7).wrapping_mul(9);
        let t = self.s[1] << 17;
        self.s[2] ^= self.s[0];
        self.s[3] ^= self.s[1];
        self.s[1] ^= self.s[2];
        self.s[0] ^= self.s[3];
        self.s[2] ^= t;
        self.s[3] = self.s[3].rotate_left(45);
        r
    }

    pub fn u32(&mut self) -> u32 {
        (self.u64() >> 32) as u32
    }

    pub fn u16(&mut self) -> u16 {
        (self.u64() >> 48) as u16
    }

    pub fn u8(&mut self) -> u8 {
        (self.u64() >> 56) as u8
    }

    /// Uniform in `0..n` (`n > 0`).
    pub fn below(&mut self, n: u64) -> u64 {
        debug_assert!(n > 0);
        // Bias is irrelevant for test generation.
        ((self.u64() as u128 * n as u128) >> 64) as u64
    }

    pub fn usize_below(&mut self, n: usize) -> usize {
        self.below(n as u64) as usize
    }

    /// Uniform in `lo..=hi`.
    pub fn range(&mut self, lo: u64, hi: u64) -> u64 {
        lo + self.below(hi - lo + 1)
    }

    pub fn chance(&mut self, num: u64, den: u64) -> bool {
        self.below(den) < num
    }

    pub fn bool(&mut self) -> bool {
        self.u64() & 1 == 1
    }

    pub fn pick<'a, T>(&mut self, xs: &'a [T]) -> &'a T {
        &xs[self.usize_below(xs.len())]
    }

    pub fn fill(&mut self, buf: &mut [u8]) {
        for c in buf.chunks_mut(8) {
            let v = self.u64().to_le_bytes();
            c.copy_from_slice(&v[..c.len()]);
        }
    }

    pub fn bytes(&mut self, n: usize) -> Vec<u8> {
        let mut v = vec![0u8; n];
        self.fill(&mut v);
        v
    }

    pub fn shuffle<T>(&mut self, xs: &mut [T]) {
        for i in (1..xs.len()).rev() {
            let j = self.usize_below(i + 1);
            xs.swap(i, j);
        }
    }

    /// A value biased towards boundaries of the given inclusive range.
    pub fn edgy(&mut self, lo: u64, hi: u64) -> u64 {
        match self.below(8) {
            0 => lo,
            1 => hi,
            2 => (lo + 1).min(hi),
            3 => hi.saturating_sub(1).max(lo),
            _ => self.range(lo, hi),
        }
    }
}

/// FNV-1a 64, used for "distinct case" hashing.
pub fn fnv(bytes: &[u8]) -> u64 {
    let mut h = 0xcbf29ce484222325u64;
    for b in bytes {
        h ^= *b as u64;
        h = h.wrapping_mul(0x100000001b3);
    }
    h
}

pub fn fnv_mix(h: u64, v: u64) -> u64 {
    let mut h = h;
    for b in v.to_le_bytes() {
        h ^= b as u64;
        h = h.wrapping_mul(0x100000001b3);
    }
    h
}
