//! Verification harness for ethercrab (runtime monitoring). See /verif/DESIGN.md.

pub mod prng;
pub mod shard;
pub mod vclock;
pub mod wire;
pub mod pl;
pub mod plmon;
pub mod pleng;
pub mod sched;
pub mod sim;
pub mod simrun;
pub mod memeeprom;
pub mod detlock;
