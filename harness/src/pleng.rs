//! Engine `pduloop`: the real PDU loop driven by scripted actors under the baton scheduler.
//!
//! Actors: 1..3 application tasks, the TX side, the RX side (fed from a scripted wire), and for
//! deadline workloads a clock. All shared-state accesses inside ethercrab are scheduling points
//! (cfg-gated hooks); monitors see every event.

use crate::pl::*;
use crate::plmon::{HolderKind, Mode, Party, PlMon};
use crate::prng::{Rng, fnv, fnv_mix};
use crate::sched::{Blocked, Ctx, Policy, Sched};
use crate::vclock;
use crate::wire::{self, Dgram};
use ethercrab::error::{Error, PduError};
use ethercrab::verif as ev;
use ethercrab::{Command, MainDevice, MainDeviceConfig, PduLoop, PduRx, PduStorage, PduTx, ReceiveAction, RetryBehaviour, Timeouts, Writes};
use std::future::Future;
use std::pin::Pin;
use std::sync::{Arc, Mutex};
use std::task::{Context, Poll};
use std::time::Duration;

pub const FRAME_MAX: usize = 1514;

#[derive(Clone, Debug)]
pub struct EngCfg {
    pub slots: usize,
    pub frame_len: usize,
    pub apps: usize,
    pub reqs_per_app: usize,
    pub max_dgrams: usize,
    pub max_payload: usize,
    /// 0 fifo, 1 lifo, 2 random
    pub wire_order: u8,
    pub dup_pct: u64,
    pub send_fail_pct: u64,
    /// Probability (%) that an app abandons a request (only while nobody is inside the slot).
    pub abandon_pct: u64,
    pub hold_views_pct: u64,
    pub public_api_pct: u64,
    pub policy: Policy,
    pub max_steps: u64,
    pub mode: Mode,
    /// Deadline workloads (C06).
    pub deadlines: Option<DeadlineCfg>,
    /// Directed F3-style scenario: bulk index consumption with abandoned requests.
    pub index_wrap: bool,
    pub replay_choices: Option<Vec<u8>>,
    pub record_choices: bool,
    /// Part of the systematic single-pre-emption sweep (evidence only).
    pub sweep: bool,
    /// Lifecycle / routing workloads: probability (%) that a raw request is "doomed": a 300 us
    /// deadline, no retries, and the wire never answers it. Its deadline is only allowed to pass
    /// once the frame is `Sent` (nobody inside the buffer), so the expiry stays outside the window
    /// that C06 owns. The request must resolve to a PDU timeout.
    pub expire_pct: u64,
    /// Probability (%) that a future which has resolved (value or error) is kept alive by the
    /// caller and dropped only some requests later, as an enclosing select/join would.
    pub keep_resolved_pct: u64,
}

#[derive(Clone, Debug)]
pub struct DeadlineCfg {
    pub timeout_us: u64,
    pub retries: usize,
    /// % of transmissions the wire loses.
    pub lose_pct: u64,
    /// Drop the awaiting future at a random moment (any state, also while TX/RX is inside).
    pub abandon_any_pct: u64,
    /// Deliver responses even before TX returned from the send closure.
    pub early_delivery: bool,
}

#[derive(Default, Debug, Clone)]
pub struct ExecResult {
    pub violations: Vec<(String, String)>,
    pub sched_hash: u64,
    pub trace_hash: u64,
    pub steps: u64,
    pub switches: u64,
    pub interleaved: bool,
    pub stuck: bool,
    pub over_budget: bool,
    pub completed: u64,
    pub abandoned: u64,
    pub reorders: u64,
    pub duplicates: u64,
    pub views_checked: u64,
    pub views_held_across_requests: u64,
    pub trims: u64,
    pub windows: u64,
    pub send_failures: u64,
    pub transitions: std::collections::BTreeMap<String, u64>,
    pub sites: std::collections::BTreeMap<String, u64>,
    pub vectors: Vec<u64>,
    pub choices: Vec<u8>,
    pub timeouts: u64,
    pub retransmissions: u64,
    pub lost: u64,
    pub notes: Vec<String>,
    pub max_vtime: u64,
    pub alloc_refused: u64,
    pub forever_observed: u64,
    pub resolved_futures_kept: u64,
    pub resolved_futures_dropped_late: u64,
    pub doomed_expired: u64,
}

struct WireFrame {
    bytes: Vec<u8>,
    seq: u64,
    dup_done: bool,
}

#[derive(Default)]
struct Shared {
    wire: Vec<WireFrame>,
    wire_seq: u64,
    delivered_seq_max: u64,
    apps_done: usize,
    res: ExecResult,
    /// tag -> (actor, description) for diagnostics
    tags: std::collections::HashMap<u32, usize>,
    /// C06: per first-index transmissions seen by the send closure.
    tx_log: Vec<(u8, Vec<u8>, u64)>,
    rng: Option<Rng>,
    /// first tags of doomed requests (never answered by the wire)
    doomed_tags: std::collections::HashSet<u32>,
    /// slots of doomed requests whose future is still pending
    doomed_live: Vec<usize>,
}

const A_TX: usize = 0;
const A_RX: usize = 1;
const A_CLOCK: usize = 2;
const A_APP0: usize = 3;

pub fn run(cfg: &EngCfg, seed: u64) -> ExecResult {
    match cfg.slots {
        1 => run_n::<1>(cfg, seed),
        2 => run_n::<2>(cfg, seed),
        4 => run_n::<4>(cfg, seed),
        8 => run_n::<8>(cfg, seed),
        _ => panic!("slots"),
    }
}

fn block_on<M: crate::sched::Monitor + 'static, F: Future>(ctx: &Ctx<M>, mut fut: Pin<&mut F>) -> Option<F::Output> {
    let waker = ctx.waker();
    let mut cx = Context::from_waker(&waker);
    loop {
        match fut.as_mut().poll(&mut cx) {
            Poll::Ready(v) => return Some(v),
            Poll::Pending => match {
                // the poll may have armed a timer: let the clock know
                ctx.wake_actor(A_CLOCK);
                ctx.block()
            } {
                Blocked::Woken => {}
                Blocked::Stuck => return None,
            },
        }
    }
}

fn find_slot(pl: &PduLoop<'_>, ptr: *const u8) -> Option<usize> {
    (0..ev::num_slots(pl)).find(|i| ev::slot(pl, *i).bytes.as_ptr_range().contains(&ptr))
}

struct HeldView<'a> {
    view: ev::ReceivedPdu<'a>,
    expect: Vec<u8>,
    token: u64,
    slot: usize,
    age: u32,
    trimmed: usize,
}

fn run_n<const N: usize>(cfg: &EngCfg, seed: u64) -> ExecResult {
    crate::sched::install_global_hook();
    vclock::reset(1_000);
    let storage = PduStorage::<N, FRAME_MAX>::new();
    let (tx, rx, pdu_loop) = storage.verif_try_split_with_len(cfg.frame_len).expect("split");
    let (pdu_to, retry) = (Duration::from_secs(100_000), RetryBehaviour::None);
    let md = MainDevice::new(pdu_loop, Timeouts { pdu: pdu_to, ..Timeouts::default() }, MainDeviceConfig { dc_static_sync_iterations: 0, retry_behaviour: retry });
    let pl = ev::maindevice_pdu_loop(&md);

    let mut names: Vec<String> = vec!["tx".into(), "rx".into(), "clock".into()];
    for i in 0..cfg.apps {
        names.push(format!("app{i}"));
    }
    let name_refs: Vec<&str> = names.iter().map(|s| s.as_str()).collect();
    let mon = PlMon::new(cfg.mode, slot_addrs(pl), &name_refs);
    let sched = Sched::new(&name_refs, seed, cfg.policy.clone(), cfg.max_steps, mon);
    if let Some(c) = &cfg.replay_choices {
        sched.set_replay(c.clone());
    }
    if cfg.record_choices {
        sched.record_choices();
    }
    let shared = Arc::new(Mutex::new(Shared { rng: Some(Rng::new(seed ^ 0x5EED)), ..Default::default() }));

    std::thread::scope(|s| {
        // ---- TX
        {
            let (sched, shared, cfg) = (sched.clone(), shared.clone(), cfg.clone());
            let mut tx: PduTx = tx;
            s.spawn(move || {
                let ctx = Ctx::enter(sched, A_TX);
                guarded(&ctx, "tx", || tx_actor(&ctx, &mut tx, &shared, &cfg));
                ctx.leave();
            });
        }
        // ---- RX
        {
            let (sched, shared, cfg) = (sched.clone(), shared.clone(), cfg.clone());
            let mut rx: PduRx = rx;
            s.spawn(move || {
                let ctx = Ctx::enter(sched, A_RX);
                guarded(&ctx, "rx", || rx_actor(&ctx, &mut rx, &shared, &cfg));
                ctx.leave();
            });
        }
        // ---- clock
        {
            let (sched, shared, cfg) = (sched.clone(), shared.clone(), cfg.clone());
            s.spawn(move || {
                let ctx = Ctx::enter(sched, A_CLOCK);
                if cfg.deadlines.is_some() || cfg.expire_pct > 0 {
                    clock_actor(&ctx, &shared, &cfg);
                }
                ctx.leave();
            });
        }
        // ---- apps
        for a in 0..cfg.apps {
            let (sched, shared, cfg) = (sched.clone(), shared.clone(), cfg.clone());
            let md = &md;
            s.spawn(move || {
                let ctx = Ctx::enter(sched, A_APP0 + a);
                guarded(&ctx, "app", || app_actor(&ctx, md, &shared, &cfg, a, seed));
                lk(&shared).apps_done += 1;
                // Let TX/RX/clock notice.
                ctx.wake_actor(A_TX);
                ctx.wake_actor(A_RX);
                ctx.wake_actor(A_CLOCK);
                ctx.leave();
            });
        }
        sched.run_to_completion();
    });

    // Quiescent: every handle is gone. Conservation check (C03/C06: no slot lost for good).
    let final_states = states(pl);
    let mut res = std::mem::take(&mut lk(&shared).res);
    sched.with(|g| {
        res.violations.append(&mut g.mon.violations);
        res.sched_hash = g.sched_hash;
        res.trace_hash = g.mon.trace_hash;
        res.steps = g.step;
        res.switches = g.switches;
        res.interleaved = g.mon.interleaved_on_slot;
        res.stuck = g.stuck;
        res.over_budget = g.over_budget;
        res.windows = g.mon.windows;
        res.transitions = g.mon.transitions.clone();
        res.sites = g.mon.sites.clone();
        res.vectors = g.mon.vectors.iter().copied().collect();
        res.choices = g.choices.clone();
    });
    res.max_vtime = vclock::now();
    if final_states.iter().any(|s| *s != ST_NONE) && !res.over_budget {
        let sig = if cfg.deadlines.is_some() { "C06:slot-lost-after-quiescence" } else { "C02:slot-not-free-after-quiescence" };
        res.violations.push((
            format!("{sig}:{}", final_states.iter().filter(|s| **s != ST_NONE).map(|s| state_name(*s)).collect::<Vec<_>>().join(",")),
            format!("all handles dropped, TX/RX idle, but slot states are {:?}", final_states.iter().map(|s| state_name(*s)).collect::<Vec<_>>()),
        ));
    }
    vclock::reset(0);
    res
}

/// Run an actor body; a panic inside (ethercrab or harness) becomes a violation instead of
/// killing the baton holder.
fn guarded(ctx: &Ctx<PlMon>, who: &str, f: impl FnOnce()) {
    if let Err(p) = std::panic::catch_unwind(std::panic::AssertUnwindSafe(f)) {
        let msg = p.downcast_ref::<String>().cloned().or_else(|| p.downcast_ref::<&str>().map(|s| s.to_string())).unwrap_or_else(|| "?".into());
        let short: String = msg.chars().take(60).collect();
        ctx.mon(|m| m.violation(&format!("PANIC:{who}:{short}"), msg.clone()));
    }
}

fn tx_actor(ctx: &Ctx<PlMon>, tx: &mut PduTx<'_>, shared: &Arc<Mutex<Shared>>, cfg: &EngCfg) {
    let waker = ctx.waker();
    let mut failed_once: std::collections::HashSet<(u8, u64)> = Default::default();
    loop {
        tx.replace_waker(&waker);
        while let Some(f) = tx.next_sendable_frame() {
            let mut captured = vec![];
            let fail = {
                let mut sh = lk(shared);
                let r = sh.rng.as_mut().unwrap();
                if r.below(100) < cfg.send_fail_pct { 1 + r.below(2) } else { 0 }
            };
            let mut fail = fail;
            let early = cfg.deadlines.as_ref().is_some_and(|d| d.early_delivery);
            let res = f.send_blocking(|b| {
                captured = b.to_vec();
                let key = (b.get(17).copied().unwrap_or(0), fnv(b));
                if fail != 0 && !failed_once.insert(key) {
                    fail = 0;
                }
                ctx.mon(|m| m.tx_send_failing = fail != 0);
                // only the victims' frames (tag byte 3 = task number + 1 > 1) are answered early
                if early && fail == 0 && b.len() >= 22 && b[21] > 1 {
                    // the response is on the wire before TX even returns
                    put_on_wire(ctx, shared, cfg, &captured);
                }
                match fail {
                    0 => Ok(b.len()),
                    1 => Err(Error::SendFrame),
                    _ => Ok(b.len().saturating_sub(1)),
                }
            });
            ctx.mon(|m| {
                m.tx_send_failing = false;
                m.remove_holders_of(A_TX, HolderKind::TxClaim)
            });
            match res {
                Ok(_) => {
                    {
                        let mut sh = lk(shared);
                        let now = vclock::now();
                        sh.tx_log.push((captured.get(17).copied().unwrap_or(0), captured.clone(), now));
                    }
                    if !(early && captured.len() >= 22 && captured[21] > 1) {
                        put_on_wire(ctx, shared, cfg, &captured);
                    }
                }
                Err(_) => {
                    lk(shared).res.send_failures += 1;
                }
            }
        }
        if lk(shared).apps_done == cfg.apps {
            break;
        }
        if ctx.block() == Blocked::Stuck {
            break;
        }
    }
}

fn put_on_wire(ctx: &Ctx<PlMon>, shared: &Arc<Mutex<Shared>>, cfg: &EngCfg, tx_bytes: &[u8]) {
    let mut sh = lk(shared);
    if tx_bytes.len() >= 22 && sh.doomed_tags.contains(&u32::from_le_bytes([tx_bytes[18], tx_bytes[19], tx_bytes[20], tx_bytes[21]])) {
        sh.res.lost += 1;
        return;
    }
    if let Some(d) = &cfg.deadlines {
        // only requests of the victim tasks (tag byte 3 = task number + 1) are lost
        let victim_frame = tx_bytes.len() >= 22 && tx_bytes[21] > 1;
        if victim_frame && sh.rng.as_mut().unwrap().below(100) < d.lose_pct {
            sh.res.lost += 1;
            return;
        }
    }
    let resp = respond(tx_bytes, |_, d: &mut Dgram| {
        let tag = d.addr;
        d.data = resp_bytes(tag, d.data.len());
        d.wkc = resp_wkc(tag);
    });
    sh.wire_seq += 1;
    let seq = sh.wire_seq;
    sh.wire.push(WireFrame { bytes: resp, seq, dup_done: false });
    drop(sh);
    ctx.wake_actor(A_RX);
}

fn rx_actor(ctx: &Ctx<PlMon>, rx: &mut PduRx<'_>, shared: &Arc<Mutex<Shared>>, cfg: &EngCfg) {
    loop {
        let next = {
            let mut sh = lk(shared);
            if sh.wire.is_empty() {
                None
            } else {
                let n = sh.wire.len();
                let i = match cfg.wire_order {
                    0 => 0,
                    1 => n - 1,
                    _ => sh.rng.as_mut().unwrap().usize_below(n),
                };
                let dup = !sh.wire[i].dup_done && sh.rng.as_mut().unwrap().below(100) < cfg.dup_pct;
                let seq = sh.wire[i].seq;
                if seq < sh.delivered_seq_max {
                    sh.res.reorders += 1;
                }
                sh.delivered_seq_max = sh.delivered_seq_max.max(seq);
                if dup {
                    sh.wire[i].dup_done = true;
                    sh.res.duplicates += 1;
                    Some(sh.wire[i].bytes.clone())
                } else {
                    Some(sh.wire.remove(i).bytes)
                }
            }
        };
        match next {
            Some(b) => {
                let r = rx.receive_frame(&b);
                if crate::plmon::trace_on() {
                    eprintln!("  rx delivered idx {} len {} -> {:?}", b[17], b.len(), r);
                }
                ctx.mon(|m| {
                    // RX is outside again: whatever happened, it may not keep a claim.
                    m.remove_holders_of(A_RX, HolderKind::RxClaim);
                    for s in 0..m.open.len() {
                        m.close_window(s, A_RX, Party::Rx);
                    }
                    let _ = &r;
                });
                ctx.yield_now();
            }
            None => {
                if lk(shared).apps_done == cfg.apps {
                    break;
                }
                if ctx.block() == Blocked::Stuck {
                    break;
                }
            }
        }
    }
}

fn clock_actor(ctx: &Ctx<PlMon>, shared: &Arc<Mutex<Shared>>, cfg: &EngCfg) {
    loop {
        if lk(shared).apps_done == cfg.apps {
            break;
        }
        // doomed requests (lifecycle workloads): their deadline may pass only while the frame is
        // `Sent`, i.e. while neither TX nor RX is inside the buffer
        let hold = cfg.deadlines.is_none() && {
            let live = lk(shared).doomed_live.clone();
            ctx.mon(|m| live.iter().any(|s| m.shadow[*s] != ST_SENT))
        };
        match vclock::next_deadline().filter(|t| *t < vclock::now() + 10_000_000 && !hold) {
            Some(t) => {
                vclock::advance_to(t);
                ctx.yield_now();
            }
            None => {
                if ctx.block() == Blocked::Stuck {
                    break;
                }
            }
        }
    }
}

struct ReqSpec {
    cmds: Vec<(usize, u32, Vec<u8>)>, // kind, tag, payload sent
}

#[allow(non_snake_case)]
fn verify_views(ctx: &Ctx<PlMon>, pl: &PduLoop<'_>, held: &mut Vec<HeldView<'_>>, shared: &Arc<Mutex<Shared>>, who: &str, prefix: &str) {
    let _ = pl;
    for h in held.iter_mut() {
        ctx.mon(|m| m.open_window(h.slot, ctx.id, Party::Reader));
        let got_len = h.view.len();
        let want = &h.expect[h.trimmed.min(h.expect.len())..];
        let half = got_len / 2;
        let first: Vec<u8> = h.view[..half.min(got_len)].to_vec();
        ctx.yield_now();
        let second: Vec<u8> = h.view[half.min(got_len)..].to_vec();
        ctx.mon(|m| m.close_window(h.slot, ctx.id, Party::Reader));
        let mut got = first;
        got.extend(second);
        lk(shared).res.views_checked += 1;
        if got_len != want.len() || got != want {
            let untrimmed_tail = &h.expect[h.trimmed.min(h.expect.len())..];
            let sig = if h.trimmed > 0 && got_len == h.expect.len() && got.starts_with(untrimmed_tail) {
                // pointer advanced, length not reduced: the view now runs past the data area
                "trim-front-keeps-length"
            } else if h.age == 0 {
                "view-wrong-bytes"
            } else {
                "held-view-changed"
            };
            let _ = who;
            let P = prefix;
            ctx.mon(|m| m.violation(&format!("{P}:{sig}"), format!("view of slot {} (age {}, trimmed {}) shows len {} {:02x?}, expected len {} {:02x?}", h.slot, h.age, h.trimmed, got_len, &got[..got.len().min(24)], want.len(), &want[..want.len().min(24)])));
            // report once
            h.expect = {
                let mut e = vec![0; h.trimmed.min(h.expect.len())];
                e.extend(got);
                e
            };
        }
        h.age += 1;
    }
}

fn app_actor<'a>(ctx: &Ctx<PlMon>, md: &'a MainDevice<'a>, shared: &Arc<Mutex<Shared>>, cfg: &EngCfg, a: usize, seed: u64) {
    let pl = ev::maindevice_pdu_loop(md);
    // In deadline workloads task 0 is the competitor: no deadline, never abandons; it must still
    // get exactly its own responses whatever happens to the other tasks' requests.
    #[allow(non_snake_case)]
    let P: &str = if cfg.mode == Mode::Deadlines { "C06" } else { "C01" };
    let victim = cfg.deadlines.is_some() && a > 0;
    let my_deadlines = if victim { cfg.deadlines.clone() } else { None };
    let mut rng = Rng::new(seed).fork(1000 + a as u64);
    let cap = cfg.frame_len - 28;
    let mut held: Vec<HeldView<'a>> = vec![];
    // futures that have resolved but are kept alive for a while: they own nothing any more
    let mut resolved: Vec<Pin<Box<ev::ReceiveFrameFut<'a>>>> = vec![];
    let mut seq: u32 = 0;
    let me = ctx.id;

    macro_rules! release_views {
        ($keep:expr) => {
            while held.len() > $keep {
                let h = held.remove(0);
                ctx.mon(|m| m.remove_holder(h.slot, h.token));
                drop(h);
            }
        };
    }

    for r in 0..cfg.reqs_per_app {
        if ctx.over_budget() {
            break;
        }
        // ---- build the request
        let use_public = !victim && rng.below(100) < cfg.public_api_pct;
        let nd = if use_public { 1 } else { 1 + rng.usize_below(cfg.max_dgrams) };
        let mut spec = ReqSpec { cmds: vec![] };
        let mut room = cap;
        for _ in 0..nd {
            if room < 1 && !spec.cmds.is_empty() {
                break;
            }
            seq += 1;
            let tag: u32 = ((a as u32 + 1) << 24) | ((seed as u32 & 0xff) << 16) | seq;
            let maxl = room.min(cfg.max_payload);
            let len = if cfg.index_wrap { 0 } else { rng.edgy(0, maxl as u64) as usize };
            let kind = 1 + rng.usize_below(NUM_CMD_KINDS - 1);
            let is_write = kind >= 6;
            let payload = if is_write { rng.bytes(len) } else { vec![0; len] };
            spec.cmds.push((kind, tag, payload));
            lk(shared).tags.insert(tag, me);
            if room < len + 12 {
                break;
            }
            room -= len + 12;
        }

        if crate::plmon::trace_on() {
            eprintln!("  app{a} request {r}: public={use_public} cmds={:x?}", spec.cmds.iter().map(|(k, t, p)| (*k, *t, p.len())).collect::<Vec<_>>());
        }
        if use_public {
            // ---- public API: one datagram, result is a view or a typed value
            let (kind, tag, payload) = spec.cmds[0].clone();
            let wk = resp_wkc(tag);
            let want = resp_bytes(tag, payload.len());
            let (adp, ado) = (tag as u16, (tag >> 16) as u16);
            let api = rng.below(3);
            let out: Option<Result<ev::ReceivedPdu<'a>, Error>> = match api {
                0 => {
                    let fut = Command::fprd(adp, ado).with_wkc(wk).receive_slice(md, payload.len() as u16);
                    let mut fut = std::pin::pin!(fut);
                    block_on(ctx, fut.as_mut())
                }
                1 => {
                    let fut = Command::fpwr(adp, ado).with_wkc(wk).send_receive_slice(md, &payload[..]);
                    let mut fut = std::pin::pin!(fut);
                    block_on(ctx, fut.as_mut())
                }
                _ => {
                    let fut = Command::lrw(tag).with_wkc(wk).send_receive_slice(md, &payload[..]);
                    let mut fut = std::pin::pin!(fut);
                    block_on(ctx, fut.as_mut())
                }
            };
            let _ = kind;
            match out {
                None => {
                    ctx.mon(|m| m.violation(&format!("{P}:request-never-completed:public"), format!("{} request tag {tag:#x}: nobody left to wake the caller", names_of(a))));
                    break;
                }
                Some(Err(Error::Pdu(PduError::SwapState))) => {
                    // Storage full: legitimate while other tasks / held views own every slot
                    // (whether "full" is genuine is C03's question).
                    lk(shared).res.alloc_refused += 1;
                    ctx.yield_now();
                    release_views!(0);
                }
                Some(Err(e)) => {
                    let sig = match &e {
                        Error::WorkingCounter { .. } => format!("{P}:wrong-response:wkc:public"),
                        Error::Timeout(_) => format!("{P}:unexpected-timeout:public"),
                        other => format!("{P}:request-failed:public:{}", variant(other)),
                    };
                    ctx.mon(|m| m.violation(&sig, format!("{} request tag {tag:#x} failed with {e:?}", names_of(a))));
                }
                Some(Ok(view)) => {
                    lk(shared).res.completed += 1;
                    let slot = find_slot(pl, view.as_ptr()).unwrap_or(0);
                    let token = ctx.mon(|m| m.add_holder(slot, me, HolderKind::View));
                    held.push(HeldView { view, expect: want, token, slot, age: 0, trimmed: 0 });
                }
            }
        } else {
            // ---- raw frame API
            let mut frame = match ev::alloc_frame(pl) {
                Ok(f) => f,
                Err(_) => {
                    // Storage full is legitimate when other tasks / held views occupy all slots.
                    lk(shared).res.alloc_refused += 1;
                    ctx.yield_now();
                    release_views!(0);
                    continue;
                }
            };
            let slot = frame.storage_slot_index() as usize;
            let tok_created = ctx.mon(|m| m.add_holder(slot, me, HolderKind::Created));
            let mut handles = vec![];
            let mut accepted = vec![];
            for (kind, tag, payload) in &spec.cmds {
                let cmd = make_command(*kind, *tag as u16, (*tag >> 16) as u16);
                let r = frame.push_pdu(cmd, &payload[..], None);
                ctx.mon(|m| m.close_window(slot, me, Party::Builder));
                match r {
                    Ok(h) => {
                        handles.push(h);
                        accepted.push((*tag, payload.len()));
                    }
                    Err(_) => break,
                }
            }
            if accepted.is_empty() || rng.below(200) < cfg.abandon_pct {
                // a frame that was claimed but never marked sendable
                ctx.atomic(|| {
                    ctx.mon(|m| m.remove_holder(slot, tok_created));
                    drop(frame);
                });
                lk(shared).res.abandoned += 1;
                ctx.yield_now();
                continue;
            }
            let doomed = my_deadlines.is_none() && cfg.deadlines.is_none() && !cfg.index_wrap && rng.below(100) < cfg.expire_pct;
            let (to, retries) = match &my_deadlines {
                Some(d) => (Duration::from_micros(d.timeout_us), d.retries),
                None if doomed => (Duration::from_micros(300), 0),
                None => (Duration::from_secs(100_000), 0),
            };
            if doomed {
                let mut sh = lk(shared);
                sh.doomed_tags.insert(spec.cmds[0].1);
                sh.doomed_live.push(slot);
            }
            let tok_fut = ctx.mon(|m| {
                m.remove_holder(slot, tok_created);
                m.add_holder(slot, me, HolderKind::Future)
            });
            let mut fut = Some(Box::pin(ev::mark_sendable(frame, pl, to, retries)));
            let abandon = !doomed && rng.below(100) < cfg.abandon_pct;
            let abandon_any = my_deadlines.as_ref().is_some_and(|d| rng.below(100) < d.abandon_any_pct);
            let abandon_after = rng.usize_below(4);
            let waker = ctx.waker();
            let mut cx = Context::from_waker(&waker);
            let mut polls = 0;
            let t_start = vclock::now();
            let outcome: Option<Result<ev::ReceivedFrame<'a>, Error>> = loop {
                match fut.as_mut().unwrap().as_mut().poll(&mut cx) {
                    Poll::Ready(v) => break Some(v),
                    Poll::Pending => {}
                }
                polls += 1;
                if (abandon || abandon_any) && polls > abandon_after {
                    break None;
                }
                // Bounded observation: RetryBehaviour::Forever is watched for 8 periods, and an
                // execution over its step budget winds down.
                let forever_done = my_deadlines.as_ref().is_some_and(|d| d.retries == usize::MAX && vclock::now() > t_start + 8 * d.timeout_us);
                if forever_done || ctx.over_budget() {
                    if forever_done {
                        lk(shared).res.forever_observed += 1;
                    }
                    break None;
                }
                ctx.wake_actor(A_CLOCK);
                if abandon || abandon_any {
                    // don't sleep: the point is to abandon at a random moment
                    ctx.yield_now();
                    continue;
                }
                match ctx.block() {
                    Blocked::Woken => {}
                    Blocked::Stuck => {
                        let st = ctx.mon(|m| m.shadow[slot]);
                        ctx.mon(|m| m.violation(&format!("{P}:request-never-completed:raw:{}", state_name(st)), format!("{} request in slot {slot} (state {}): nobody left to wake the caller", names_of(a), state_name(st))));
                        break None;
                    }
                }
            };
            if doomed {
                lk(shared).doomed_live.retain(|s| *s != slot);
                ctx.wake_actor(A_CLOCK);
            }
            let keep_resolved = outcome.is_some() && rng.below(100) < cfg.keep_resolved_pct;
            match outcome {
                None => {
                    // abandonment. Lifecycle workloads may only abandon while nobody is inside:
                    // wait (yielding) for such a moment, then check and drop with no scheduling
                    // point in between.
                    let mut f = fut.take();
                    if cfg.mode == Mode::Lifecycle {
                        for _ in 0..200 {
                            let done = ctx.atomic(|| {
                                let st = ctx.mon(|m| m.shadow[slot]);
                                if st != ST_SENDING && st != ST_RXBUSY {
                                    ctx.mon(|m| m.remove_holder(slot, tok_fut));
                                    drop(f.take());
                                    true
                                } else {
                                    false
                                }
                            });
                            if done {
                                break;
                            }
                            ctx.yield_now();
                        }
                        if let Some(mut f) = f.take() {
                            let r = block_on(ctx, f.as_mut());
                            ctx.mon(|m| m.remove_holder(slot, tok_fut));
                            drop(r);
                        }
                    } else {
                        ctx.mon(|m| m.remove_holder(slot, tok_fut));
                        drop(f);
                    }
                    lk(shared).res.abandoned += 1;
                }
                Some(Err(e)) => {
                    ctx.mon(|m| m.remove_holder(slot, tok_fut));
                    if keep_resolved {
                        resolved.push(fut.take().unwrap());
                        lk(shared).res.resolved_futures_kept += 1;
                    }
                    drop(fut);
                    match (&e, &my_deadlines) {
                        (Error::Timeout(_), Some(_)) => {
                            lk(shared).res.timeouts += 1;
                        }
                        (Error::Timeout(_), None) if doomed => {
                            let mut sh = lk(shared);
                            sh.res.timeouts += 1;
                            sh.res.doomed_expired += 1;
                        }
                        _ => {
                            ctx.mon(|m| m.violation(&format!("{P}:request-failed:raw:{}", variant(&e)), format!("{} request in slot {slot} failed with {e:?}", names_of(a))));
                        }
                    }
                }
                Some(Ok(rf)) => {
                    if keep_resolved {
                        resolved.push(fut.take().unwrap());
                        lk(shared).res.resolved_futures_kept += 1;
                    }
                    drop(fut.take());
                    if doomed {
                        ctx.mon(|m| m.violation(&format!("{P}:unanswered-request-completed"), format!("{} request in slot {slot} was never answered by the wire but completed with a response", names_of(a))));
                    }
                    lk(shared).res.completed += 1;
                    let tok_rf = ctx.mon(|m| {
                        m.remove_holder(slot, tok_fut);
                        m.add_holder(slot, me, HolderKind::Received)
                    });
                    if handles.len() == 1 || rng.bool() {
                        // first_pdu path (what MainDevice::single_pdu does)
                        let (tag, len) = accepted[0];
                        let h = handles.remove(0);
                        // The frame moves into the view (or is dropped on error): keep the
                        // ownership bookkeeping in step with it.
                        let (r, tok_view) = ctx.atomic(|| {
                            let r = rf.first_pdu(h);
                            ctx.mon(|m| m.remove_holder(slot, tok_rf));
                            let t = if r.is_ok() { Some(ctx.mon(|m| m.add_holder(slot, me, HolderKind::View))) } else { None };
                            (r, t)
                        });
                        match r {
                            Ok(view) => {
                                let view = match view.wkc(resp_wkc(tag)) {
                                    Ok(v) => v,
                                    Err(e) => {
                                        ctx.mon(|m| {
                                            m.remove_holder(slot, tok_view.unwrap());
                                            m.violation(&format!("{P}:wrong-response:wkc:raw"), format!("tag {tag:#x}: {e:?}"))
                                        });
                                        continue;
                                    }
                                };
                                held.push(HeldView { view, expect: resp_bytes(tag, len), token: tok_view.unwrap(), slot, age: 0, trimmed: 0 });
                            }
                            Err(e) => ctx.mon(|m| m.violation(&format!("{P}:response-unreadable:first_pdu:{}", variant(&e)), format!("tag {tag:#x}: {e:?}"))),
                        }
                    } else {
                        // Views produced by the iterator are (by the crate-internal contract
                        // every in-crate caller follows) only used while the iterator, which owns
                        // the frame, is alive: verify them inside that scope.
                        let mut n = 0;
                        let mut it = rf.into_pdu_iter();
                        let mut local: Vec<HeldView<'a>> = vec![];
                        let mut i = 0;
                        while let Some(item) = it.next() {
                            n += 1;
                            let Some((tag, len)) = accepted.get(i).copied() else {
                                ctx.mon(|m| m.violation(&format!("{P}:extra-datagram-in-response"), format!("iterator yielded item {i} but only {} were pushed", accepted.len())));
                                break;
                            };
                            i += 1;
                            match item {
                                Ok(view) => {
                                    let view = match view.wkc(resp_wkc(tag)) {
                                        Ok(v) => v,
                                        Err(e) => {
                                            ctx.mon(|m| m.violation(&format!("{P}:wrong-response:wkc:iter"), format!("tag {tag:#x}: {e:?}")));
                                            continue;
                                        }
                                    };
                                    let token = ctx.mon(|m| m.add_holder(slot, me, HolderKind::View));
                                    local.push(HeldView { view, expect: resp_bytes(tag, len), token, slot, age: 0, trimmed: 0 });
                                }
                                Err(e) => ctx.mon(|m| m.violation(&format!("{P}:response-unreadable:iter:{}", variant(&e)), format!("tag {tag:#x}: {e:?}"))),
                            }
                        }
                        verify_views(ctx, pl, &mut local, shared, "iter", P);
                        for h in local.iter_mut() {
                            let k = rng.usize_below(h.expect.len() + 4);
                            h.view.trim_front(k);
                            h.trimmed = (h.trimmed + k).min(h.expect.len());
                            lk(shared).res.trims += 1;
                        }
                        verify_views(ctx, pl, &mut local, shared, "iter-trim", P);
                        for h in local.drain(..) {
                            ctx.mon(|m| m.remove_holder(h.slot, h.token));
                        }
                        ctx.mon(|m| m.remove_holder(slot, tok_rf));
                        drop(it);
                        if n != accepted.len() {
                            ctx.mon(|m| m.violation(&format!("{P}:missing-datagram-in-response"), format!("iterator yielded {n} of {}", accepted.len())));
                        }
                    }
                }
            }
        }

        // ---- M-deadline (victims): every transmission of this request byte-identical, at most
        // 1 + retries of them.
        if let (Some(d), false) = (&my_deadlines, use_public) {
            let first_tag = spec.cmds[0].1;
            let sh = lk(shared);
            let mine: Vec<&Vec<u8>> = sh.tx_log.iter().filter(|(_, b, _)| b.len() >= 22 && u32::from_le_bytes([b[18], b[19], b[20], b[21]]) == first_tag).map(|(_, b, _)| b).collect();
            let n = mine.len();
            let identical = mine.windows(2).all(|w| w[0] == w[1]);
            let detail = if !identical { Some(format!("first {} then {}", crate::shard::hex(mine[0]), crate::shard::hex(mine.iter().find(|b| **b != mine[0]).unwrap()))) } else { None };
            drop(sh);
            lk(shared).res.retransmissions += n.saturating_sub(1) as u64;
            if let Some(dt) = detail {
                ctx.mon(|m| m.violation("C06:retransmission-differs", format!("request tag {first_tag:#x}: {n} transmissions, not byte-identical: {dt}")));
            }
            if d.retries != usize::MAX && n > 1 + d.retries {
                ctx.mon(|m| m.violation("C06:too-many-transmissions", format!("request tag {first_tag:#x}: {n} transmissions with {} retries configured", d.retries)));
            }
        }

        // ---- resolved futures kept so far: some are dropped now (a resolved future owns nothing:
        // dropping it must not touch any slot, whoever uses its former slot by now)
        while !resolved.is_empty() && rng.chance(1, 3) {
            let i = rng.usize_below(resolved.len());
            drop(resolved.swap_remove(i));
            lk(shared).res.resolved_futures_dropped_late += 1;
        }

        // ---- M-view: verify everything held, trim some, keep some across the next request
        verify_views(ctx, pl, &mut held, shared, "fresh-or-held", P);
        for h in held.iter_mut() {
            if h.age == 1 && rng.chance(1, 2) {
                // front trim by k in 0..=len+3
                let k = rng.usize_below(h.expect.len() + 4);
                h.view.trim_front(k);
                h.trimmed = (h.trimmed + k).min(h.expect.len());
                lk(shared).res.trims += 1;
            }
        }
        verify_views(ctx, pl, &mut held, shared, "after-trim", P);
        let hold = rng.below(100) < cfg.hold_views_pct;
        if hold && r + 1 < cfg.reqs_per_app {
            lk(shared).res.views_held_across_requests += held.len() as u64;
            release_views!(2);
        } else {
            release_views!(0);
        }
    }
    while let Some(f) = resolved.pop() {
        drop(f);
        lk(shared).res.resolved_futures_dropped_late += 1;
    }
    verify_views(ctx, pl, &mut held, shared, "final", P);
    release_views!(0);
}

fn lk(m: &Arc<Mutex<Shared>>) -> std::sync::MutexGuard<'_, Shared> {
    m.lock().unwrap_or_else(|e| e.into_inner())
}

fn names_of(a: usize) -> String {
    format!("app{a}")
}

pub fn variant(e: &Error) -> String {
    let s = format!("{e:?}");
    s.split(|c: char| c == ' ' || c == '{').next().unwrap_or("").to_string()
}

#[allow(unused)]
fn unused(_: PduError, _: ReceiveAction, _: Writes, _: fn(&[u8]) -> u64) {
    let _ = fnv_mix(0, 0);
    let _ = wire::CMD_NOP;
}
