//! Helpers shared by the PDU-loop checks (C01-C06): slot snapshots, wakers, command encoding,
//! response synthesis.

use crate::prng::Rng;
use crate::wire::{self, Dgram};
use ethercrab::verif as ev;
use ethercrab::{Command, PduLoop, PduRx, PduTx, Reads, Writes};
use std::future::Future;
use std::pin::Pin;
use std::sync::Arc;
use std::sync::atomic::{AtomicUsize, Ordering};
use std::task::{Context, Poll, Wake, Waker};

pub const ST_NONE: u8 = 0;
pub const ST_CREATED: u8 = 1;
pub const ST_SENDABLE: u8 = 2;
pub const ST_SENDING: u8 = 3;
pub const ST_SENT: u8 = 4;
pub const ST_RXBUSY: u8 = 5;
pub const ST_RXDONE: u8 = 6;
pub const ST_RXPROC: u8 = 7;
pub const ST_ABANDONED: u8 = 8;

pub fn state_name(s: u8) -> &'static str {
    match s {
        0 => "None",
        1 => "Created",
        2 => "Sendable",
        3 => "Sending",
        4 => "Sent",
        5 => "RxBusy",
        6 => "RxDone",
        7 => "RxProcessing",
        8 => "Abandoned",
        _ => "?",
    }
}

#[derive(Clone, Debug, PartialEq, Eq)]
pub struct SlotSnap {
    pub state: u8,
    pub first_pdu: u16,
    pub payload_len: usize,
    pub bytes: Vec<u8>,
}

pub fn snap(pl: &PduLoop<'_>) -> Vec<SlotSnap> {
    (0..ev::num_slots(pl))
        .map(|i| {
            let s = ev::slot(pl, i);
            SlotSnap {
                state: s.state,
                first_pdu: s.first_pdu,
                payload_len: s.pdu_payload_len,
                bytes: s.bytes.to_vec(),
            }
        })
        .collect()
}

pub fn states(pl: &PduLoop<'_>) -> Vec<u8> {
    (0..ev::num_slots(pl)).map(|i| ev::slot(pl, i).state).collect()
}

pub fn slot_addrs(pl: &PduLoop<'_>) -> Vec<usize> {
    (0..ev::num_slots(pl)).map(|i| ev::slot(pl, i).addr).collect()
}

pub struct CountWaker(pub AtomicUsize);

impl Wake for CountWaker {
    fn wake(self: Arc<Self>) {
        self.0.fetch_add(1, Ordering::SeqCst);
    }
    fn wake_by_ref(self: &Arc<Self>) {
        self.0.fetch_add(1, Ordering::SeqCst);
    }
}

pub fn count_waker() -> (Arc<CountWaker>, Waker) {
    let c = Arc::new(CountWaker(AtomicUsize::new(0)));
    (c.clone(), Waker::from(c))
}

pub fn poll_once<F: Future + ?Sized>(f: &mut Pin<Box<F>>, w: &Waker) -> Poll<F::Output> {
    let mut cx = Context::from_waker(w);
    f.as_mut().poll(&mut cx)
}

/// Commands by kind index 0..11 (all 11 kinds incl. NOP).
pub const NUM_CMD_KINDS: usize = 11;

pub fn make_command(kind: usize, a: u16, r: u16) -> Command {
    let l = ((r as u32) << 16) | a as u32;
    match kind {
        0 => Command::Nop,
        1 => Command::Read(Reads::Aprd { address: a, register: r }),
        2 => Command::Read(Reads::Fprd { address: a, register: r }),
        3 => Command::Read(Reads::Brd { address: a, register: r }),
        4 => Command::Read(Reads::Lrd { address: l }),
        5 => Command::Read(Reads::Frmw { address: a, register: r }),
        6 => Command::Write(Writes::Bwr { address: a, register: r }),
        7 => Command::Write(Writes::Apwr { address: a, register: r }),
        8 => Command::Write(Writes::Fpwr { address: a, register: r }),
        9 => Command::Write(Writes::Lwr { address: l }),
        10 => Command::Write(Writes::Lrw { address: l }),
        _ => unreachable!(),
    }
}

/// Reference (spec) command code and 32-bit address field for `make_command(kind, a, r)`.
pub fn ref_command(kind: usize, a: u16, r: u16) -> (u8, u32) {
    let l = ((r as u32) << 16) | a as u32;
    let code = match kind {
        0 => wire::CMD_NOP,
        1 => wire::CMD_APRD,
        2 => wire::CMD_FPRD,
        3 => wire::CMD_BRD,
        4 => wire::CMD_LRD,
        5 => wire::CMD_FRMW,
        6 => wire::CMD_BWR,
        7 => wire::CMD_APWR,
        8 => wire::CMD_FPWR,
        9 => wire::CMD_LWR,
        10 => wire::CMD_LRW,
        _ => unreachable!(),
    };
    // NOP carries no address on the wire in ethercrab (all zero); every other kind carries the
    // 32 bits as given.
    (code, if kind == 0 { 0 } else { l })
}

/// Send every sendable frame, returning what the closure saw.
pub fn tx_all(tx: &mut PduTx<'_>) -> Vec<Vec<u8>> {
    let mut out = vec![];
    while let Some(f) = tx.next_sendable_frame() {
        let mut b = vec![];
        let _ = f.send_blocking(|bytes| {
            b = bytes.to_vec();
            Ok(bytes.len())
        });
        out.push(b);
    }
    out
}

/// Turn transmitted bytes into the network's answer: source MAC gets the U/L bit, each datagram
/// is rewritten by `f`.
pub fn respond(tx_bytes: &[u8], mut f: impl FnMut(usize, &mut Dgram)) -> Vec<u8> {
    let mut fr = wire::decode_frame(tx_bytes).expect("own transmission must decode");
    fr.src = wire::MAC_RETURNED;
    for (i, d) in fr.dgrams.iter_mut().enumerate() {
        f(i, d);
    }
    wire::encode_frame(&fr)
}

/// Keyed response function: what "the network" answers for a datagram carrying `tag`.
pub fn resp_bytes(tag: u32, len: usize) -> Vec<u8> {
    let mut r = Rng::new(0xEC47_0000_0000 ^ tag as u64);
    r.bytes(len)
}

pub fn resp_wkc(tag: u32) -> u16 {
    let mut r = Rng::new(0x11C0_0000_0000 ^ tag as u64);
    r.u16()
}

pub fn rx(rx: &mut PduRx<'_>, bytes: &[u8]) -> Result<ethercrab::ReceiveAction, ethercrab::error::Error> {
    rx.receive_frame(bytes)
}
