//! Independent EtherCAT frame model (written from ETG.1000.4, not from ethercrab's code).
//!
//! Used as the reference encoder for C04, by the response generators of the PDU-loop engine and
//! by the simulated segment to parse what ethercrab transmits.

pub const ETHERTYPE_ECAT: u16 = 0x88A4;
pub const MAC_BROADCAST: [u8; 6] = [0xff; 6];
pub const MAC_MAIN: [u8; 6] = [0x10; 6];
/// What the first SubDevice turns the MainDevice MAC into (U/L bit set).
pub const MAC_RETURNED: [u8; 6] = [0x12, 0x10, 0x10, 0x10, 0x10, 0x10];

pub const CMD_NOP: u8 = 0;
pub const CMD_APRD: u8 = 1;
pub const CMD_APWR: u8 = 2;
pub const CMD_APRW: u8 = 3;
pub const CMD_FPRD: u8 = 4;
pub const CMD_FPWR: u8 = 5;
pub const CMD_FPRW: u8 = 6;
pub const CMD_BRD: u8 = 7;
pub const CMD_BWR: u8 = 8;
pub const CMD_BRW: u8 = 9;
pub const CMD_LRD: u8 = 10;
pub const CMD_LWR: u8 = 11;
pub const CMD_LRW: u8 = 12;
pub const CMD_ARMW: u8 = 13;
pub const CMD_FRMW: u8 = 14;

#[derive(Clone, Debug, PartialEq, Eq)]
pub struct Dgram {
    pub cmd: u8,
    pub idx: u8,
    /// Address field bytes 2..6 of the datagram header: ADP (low 16) | ADO (high 16), or the
    /// 32-bit logical address.
    pub addr: u32,
    /// 11-bit length field.
    pub len: u16,
    /// Reserved bits 11..13 of the length word.
    pub reserved: u8,
    pub circulating: bool,
    pub more: bool,
    pub irq: u16,
    pub data: Vec<u8>,
    pub wkc: u16,
}

impl Dgram {
    pub fn adp(&self) -> u16 {
        self.addr as u16
    }
    pub fn ado(&self) -> u16 {
        (self.addr >> 16) as u16
    }
    pub fn set_adp(&mut self, v: u16) {
        self.addr = (self.addr & 0xffff_0000) | v as u32;
    }
    pub fn wire_len(&self) -> usize {
        10 + self.data.len() + 2
    }
}

#[derive(Clone, Debug, PartialEq, Eq)]
pub struct Frame {
    pub dst: [u8; 6],
    pub src: [u8; 6],
    pub ethertype: u16,
    /// 11-bit length of the EtherCAT header.
    pub ecat_len: u16,
    /// 4-bit type (1 = PDUs). Bit 11 is reserved.
    pub ecat_type: u8,
    pub dgrams: Vec<Dgram>,
    /// Bytes after the last datagram (Ethernet padding etc).
    pub trailer: Vec<u8>,
}

/// Encode the datagram area only.
pub fn encode_dgrams(dgrams: &[Dgram]) -> Vec<u8> {
    let mut out = Vec::new();
    for d in dgrams {
        out.push(d.cmd);
        out.push(d.idx);
        out.extend_from_slice(&d.addr.to_le_bytes());
        let lw = (d.len & 0x07ff)
            | ((d.reserved as u16 & 0x7) << 11)
            | ((d.circulating as u16) << 14)
            | ((d.more as u16) << 15);
        out.extend_from_slice(&lw.to_le_bytes());
        out.extend_from_slice(&d.irq.to_le_bytes());
        out.extend_from_slice(&d.data);
        out.extend_from_slice(&d.wkc.to_le_bytes());
    }
    out
}

pub fn encode_frame(f: &Frame) -> Vec<u8> {
    let mut out = Vec::new();
    out.extend_from_slice(&f.dst);
    out.extend_from_slice(&f.src);
    out.extend_from_slice(&f.ethertype.to_be_bytes());
    let hw = (f.ecat_len & 0x07ff) | ((f.ecat_type as u16 & 0xf) << 12);
    out.extend_from_slice(&hw.to_le_bytes());
    out.extend_from_slice(&encode_dgrams(&f.dgrams));
    out.extend_from_slice(&f.trailer);
    out
}

/// Build a well-formed frame from the MainDevice carrying `dgrams` (lengths and `more` flags are
/// fixed up from the data).
pub fn main_frame(mut dgrams: Vec<Dgram>) -> Frame {
    let n = dgrams.len();
    for (i, d) in dgrams.iter_mut().enumerate() {
        d.len = d.data.len() as u16;
        d.more = i + 1 < n;
    }
    let l: usize = dgrams.iter().map(|d| d.wire_len()).sum();
    Frame {
        dst: MAC_BROADCAST,
        src: MAC_MAIN,
        ethertype: ETHERTYPE_ECAT,
        ecat_len: l as u16,
        ecat_type: 1,
        dgrams,
        trailer: vec![],
    }
}

#[derive(Debug, Clone, PartialEq, Eq)]
pub enum DecodeError {
    ShortEthernet,
    ShortHeader,
    ShortPayload { want: usize, have: usize },
    ShortDgram { at: usize },
}

/// Strict decoder for frames *ethercrab* transmits (used by C04 and the simulator).
pub fn decode_frame(b: &[u8]) -> Result<Frame, DecodeError> {
    if b.len() < 14 {
        return Err(DecodeError::ShortEthernet);
    }
    let mut f = Frame {
        dst: b[0..6].try_into().unwrap(),
        src: b[6..12].try_into().unwrap(),
        ethertype: u16::from_be_bytes([b[12], b[13]]),
        ecat_len: 0,
        ecat_type: 0,
        dgrams: vec![],
        trailer: vec![],
    };
    if b.len() < 16 {
        return Err(DecodeError::ShortHeader);
    }
    let hw = u16::from_le_bytes([b[14], b[15]]);
    f.ecat_len = hw & 0x07ff;
    f.ecat_type = (hw >> 12) as u8;
    let area = &b[16..];
    if area.len() < f.ecat_len as usize {
        return Err(DecodeError::ShortPayload {
            want: f.ecat_len as usize,
            have: area.len(),
        });
    }
    let (pd, trailer) = area.split_at(f.ecat_len as usize);
    f.trailer = trailer.to_vec();
    let mut pos = 0;
    loop {
        if pos == pd.len() {
            break;
        }
        if pd.len() - pos < 12 {
            return Err(DecodeError::ShortDgram { at: pos });
        }
        let h = &pd[pos..pos + 10];
        let lw = u16::from_le_bytes([h[6], h[7]]);
        let len = lw & 0x07ff;
        if pd.len() - pos < 12 + len as usize {
            return Err(DecodeError::ShortDgram { at: pos });
        }
        let data = pd[pos + 10..pos + 10 + len as usize].to_vec();
        let w = pos + 10 + len as usize;
        let d = Dgram {
            cmd: h[0],
            idx: h[1],
            addr: u32::from_le_bytes([h[2], h[3], h[4], h[5]]),
            len,
            reserved: ((lw >> 11) & 7) as u8,
            circulating: lw & (1 << 14) != 0,
            more: lw & (1 << 15) != 0,
            irq: u16::from_le_bytes([h[8], h[9]]),
            data,
            wkc: u16::from_le_bytes([pd[w], pd[w + 1]]),
        };
        let more = d.more;
        f.dgrams.push(d);
        pos = w + 2;
        if !more {
            // Anything left inside the declared length is recorded as trailer-inside (malformed
            // for our purposes): keep it visible by prepending to trailer.
            if pos < pd.len() {
                let mut t = pd[pos..].to_vec();
                t.extend_from_slice(&f.trailer);
                f.trailer = t;
            }
            break;
        }
    }
    Ok(f)
}
