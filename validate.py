#!/opt/veriftools/pyvenv/bin/python
"""Validate MANIFEST.json and every evidence file against the given schemas."""
import json, glob, sys, jsonschema
ok = True
def v(path, schema):
    global ok
    try:
        jsonschema.validate(json.load(open(path)), json.load(open(schema)))
        print("valid  ", path)
    except Exception as e:
        ok = False
        print("INVALID", path, str(e)[:300])
v("/verif/MANIFEST.json", "/root/.vp/MANIFEST.schema.json")
for f in sorted(glob.glob("/verif/evidence/*.json")):
    v(f, "/root/.vp/EVIDENCE.schema.json")
sys.exit(0 if ok else 1)
